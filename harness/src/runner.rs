//! shard processes, journals, watchdogs, evidence, known findings

use crate::util::{self, PanicInfo};
use rustc_hash::FxHashSet;
use serde_json::{Value, json};
use std::collections::BTreeMap;
use std::io::{Read, Seek, SeekFrom, Write};
use std::path::{Path, PathBuf};
use std::time::{Duration, Instant};

pub const VERIF_DIR: &str = "/verif";

#[derive(Clone, Copy, Debug, PartialEq, Eq)]
pub enum Tier {
    Quick,
    Thorough,
}

impl Tier {
    pub fn name(&self) -> &'static str {
        match self {
            Tier::Quick => "quick",
            Tier::Thorough => "thorough",
        }
    }
    pub fn parse(s: &str) -> Option<Tier> {
        match s {
            "quick" => Some(Tier::Quick),
            "thorough" => Some(Tier::Thorough),
            _ => None,
        }
    }
    pub fn pick<T>(&self, quick: T, thorough: T) -> T {
        match self {
            Tier::Quick => quick,
            Tier::Thorough => thorough,
        }
    }
}

#[derive(Clone, Debug, PartialEq, Eq)]
pub struct CaseId {
    pub mode: String,
    pub n: u64,
}

#[derive(Clone, Debug)]
pub struct Violation {
    pub sig: String,
    pub detail: String,
    pub case: CaseId,
    pub extra: Value,
}

pub struct Shard {
    pub id: String,
    pub tier: Tier,
    pub seed: u64,
    pub shard: u64,
    pub nshards: u64,
    pub verbose: bool,
    pub counters: BTreeMap<String, u64>,
    pub hists: BTreeMap<String, BTreeMap<String, u64>>,
    pub samples: Vec<Value>,
    pub max_samples: usize,
    pub violations: Vec<Violation>,
    pub sig_counts: BTreeMap<String, u64>,
    pub distinct: FxHashSet<u64>,
    pub inconclusive: Vec<String>,
    pub cur: CaseId,
    pub workdir: PathBuf,
    journal: Option<std::fs::File>,
}

impl Shard {
    pub fn new(id: &str, tier: Tier, seed: u64, shard: u64, nshards: u64, workdir: &Path) -> Shard {
        Shard {
            id: id.to_string(),
            tier,
            seed,
            shard,
            nshards,
            verbose: false,
            counters: Default::default(),
            hists: Default::default(),
            samples: vec![],
            max_samples: 6,
            violations: vec![],
            sig_counts: Default::default(),
            distinct: Default::default(),
            inconclusive: vec![],
            cur: CaseId { mode: String::new(), n: 0 },
            workdir: workdir.to_path_buf(),
            journal: None,
        }
    }
    pub fn case_seed(&self) -> u64 {
        util::mix(&[self.seed, util::hash_str(&self.id), util::hash_str(&self.cur.mode), self.cur.n])
    }
    pub fn count(&mut self, name: &str, n: u64) {
        *self.counters.entry(name.to_string()).or_insert(0) += n;
    }
    /// value of a counter of this shard so far
    pub fn c_local(&self, name: &str) -> u64 {
        self.counters.get(name).copied().unwrap_or(0)
    }
    pub fn hist(&mut self, name: &str, key: &str) {
        self.hist_n(name, key, 1);
    }
    pub fn hist_n(&mut self, name: &str, key: &str, n: u64) {
        *self.hists.entry(name.to_string()).or_default().entry(key.to_string()).or_insert(0) += n;
    }
    pub fn sample(&mut self, v: Value) {
        if self.samples.len() < self.max_samples {
            self.samples.push(v);
        }
    }
    pub fn want_sample(&self) -> bool {
        self.samples.len() < self.max_samples
    }
    pub fn distinct(&mut self, h: u64) {
        if self.distinct.len() < 4_000_000 {
            self.distinct.insert(h);
        }
    }
    pub fn violation(&mut self, sig: impl Into<String>, detail: impl Into<String>, extra: Value) {
        let sig = sig.into();
        let c = self.sig_counts.entry(sig.clone()).or_insert(0);
        *c += 1;
        let detail = detail.into();
        if self.verbose {
            println!("violation sig={sig}\n{detail}");
        }
        if *c <= 3 {
            self.violations.push(Violation { sig, detail, case: self.cur.clone(), extra });
        }
    }
    /// violation from a panic in code under test; harness panics become inconclusive
    pub fn panic_violation(&mut self, what: &str, p: &PanicInfo, detail: impl Into<String>) {
        if p.in_harness() {
            self.inconclusive(format!("harness panic at {} ({}) in case {} {}", p.loc(), util::trunc(&p.msg, 200), self.cur.mode, self.cur.n));
        } else {
            let sig = format!("{}|panic|{}|{}", self.id, what, p.loc());
            let d = format!("panic at {}: {}\n{}", p.loc(), util::trunc(&p.msg, 300), detail.into());
            self.violation(sig, d, Value::Null);
        }
    }
    pub fn inconclusive(&mut self, reason: impl Into<String>) {
        let r = reason.into();
        if self.verbose {
            println!("inconclusive: {r}");
        }
        if self.inconclusive.len() < 20 {
            self.inconclusive.push(r);
        }
        self.count("inconclusive_cases", 1);
    }
    fn journal(&mut self) {
        if let Some(f) = self.journal.as_mut() {
            let mut line = format!("{} {}", self.cur.mode, self.cur.n);
            while line.len() < 63 {
                line.push(' ');
            }
            line.push('\n');
            let _ = f.seek(SeekFrom::Start(0));
            let _ = f.write_all(line.as_bytes());
        }
    }
    fn to_json(&self) -> Value {
        json!({
            "counters": self.counters,
            "hists": self.hists,
            "samples": self.samples,
            "sig_counts": self.sig_counts,
            "violations": self.violations.iter().map(|v| json!({
                "sig": v.sig, "detail": v.detail, "mode": v.case.mode, "n": v.case.n, "extra": v.extra})).collect::<Vec<_>>(),
            "inconclusive": self.inconclusive,
        })
    }
}

pub struct Merged {
    pub counters: BTreeMap<String, u64>,
    pub hists: BTreeMap<String, BTreeMap<String, u64>>,
    pub samples: Vec<Value>,
    pub sig_counts: BTreeMap<String, u64>,
    pub violations: Vec<Violation>,
    pub inconclusive: Vec<String>,
    pub distinct: u64,
    /// extra keys a check wants to put into coverage
    pub extra: BTreeMap<String, Value>,
    pub exhaustive: Option<bool>,
}

impl Merged {
    pub fn c(&self, name: &str) -> u64 {
        self.counters.get(name).copied().unwrap_or(0)
    }
    pub fn h(&self, name: &str, key: &str) -> u64 {
        self.hists.get(name).and_then(|h| h.get(key)).copied().unwrap_or(0)
    }
    pub fn hist_len(&self, name: &str) -> usize {
        self.hists.get(name).map(|h| h.len()).unwrap_or(0)
    }
    pub fn floor(&mut self, what: &str, got: u64, need: u64) {
        self.extra.insert(format!("floor:{what}"), json!({"observed": got, "required": need, "met": got >= need}));
        if got < need {
            self.inconclusive.push(format!("coverage floor not met: {what}: {got} < {need}"));
        }
    }
}

pub struct WorkItem {
    pub mode: &'static str,
    pub count: u64,
}

pub trait Check: Sync {
    fn id(&self) -> &'static str;
    fn level(&self) -> &'static str {
        "exploration"
    }
    fn work(&self, tier: Tier) -> Vec<WorkItem>;
    fn run_case(&self, sh: &mut Shard, case: &CaseId);
    fn shard_timeout_s(&self, tier: Tier) -> u64 {
        // generous: a firing watchdog is only ever inconclusive, and a loaded machine must not make it fire
        tier.pick(900, 4 * 3600)
    }
    fn nshards(&self, _tier: Tier) -> u64 {
        16
    }
    /// called once per shard before cases (e.g. to install hooks)
    fn shard_begin(&self, _sh: &mut Shard) {}
    fn shard_end(&self, _sh: &mut Shard) {}
    /// called in the parent before shards are spawned (e.g. build repo tools)
    fn prepare(&self, _tier: Tier) -> Result<(), String> {
        Ok(())
    }
    fn finalize(&self, _m: &mut Merged, _tier: Tier) {}
    fn rule(&self) -> String;
    fn evaluations_counter(&self) -> &'static str {
        "cases"
    }
    fn assumptions(&self) -> Vec<String> {
        vec![]
    }
    /// small workload executed under Miri (thorough tier only); empty = no Miri shard
    fn miri_work(&self) -> Vec<WorkItem> {
        vec![]
    }
}

pub fn under_miri() -> bool {
    cfg!(miri) || std::env::var("VERIF_MIRI").is_ok()
}

pub fn run_shard(check: &dyn Check, tier: Tier, seed: u64, shard: u64, nshards: u64, outdir: &Path) {
    util::install_panic_hook();
    let workdir = outdir.join(format!("work_{shard}"));
    let _ = std::fs::create_dir_all(&workdir);
    let mut sh = Shard::new(check.id(), tier, seed, shard, nshards, &workdir);
    sh.journal = std::fs::File::create(outdir.join(format!("shard_{shard}.journal"))).ok();
    check.shard_begin(&mut sh);
    let mut items = if under_miri() { check.miri_work() } else { check.work(tier) };
    // debugging aid (never set by a registered command; the coverage floors then report what is missing)
    if let Ok(only) = std::env::var("VERIF_ONLY_MODE") {
        items.retain(|i| i.mode == only);
    }
    for item in items {
        let mut n = shard;
        while n < item.count {
            sh.cur = CaseId { mode: item.mode.to_string(), n };
            sh.journal();
            sh.count("cases", 1);
            let case = sh.cur.clone();
            let r = util::catch(|| check.run_case(&mut sh, &case));
            if let Err(p) = r {
                sh.panic_violation("uncaught", &p, "");
            }
            n += nshards;
        }
    }
    check.shard_end(&mut sh);
    // results
    let mut f = std::fs::File::create(outdir.join(format!("shard_{shard}.distinct"))).unwrap();
    let mut buf = Vec::with_capacity(sh.distinct.len() * 8);
    for h in &sh.distinct {
        buf.extend_from_slice(&h.to_le_bytes());
    }
    f.write_all(&buf).unwrap();
    let tmp = outdir.join(format!("shard_{shard}.json.tmp"));
    std::fs::write(&tmp, serde_json::to_vec(&sh.to_json()).unwrap()).unwrap();
    std::fs::rename(&tmp, outdir.join(format!("shard_{shard}.json"))).unwrap();
    let _ = std::fs::remove_dir_all(&workdir);
}

fn read_journal(outdir: &Path, shard: u64) -> Option<CaseId> {
    let s = std::fs::read_to_string(outdir.join(format!("shard_{shard}.journal"))).ok()?;
    let line = s.lines().next()?.trim();
    let (mode, n) = line.rsplit_once(' ')?;
    Some(CaseId { mode: mode.to_string(), n: n.parse().ok()? })
}

pub struct KnownFinding {
    pub property: String,
    pub signature: String,
    pub status: String,
    pub what: String,
}

pub fn load_known_findings() -> Vec<KnownFinding> {
    let p = Path::new(VERIF_DIR).join("known_findings.json");
    let Ok(s) = std::fs::read_to_string(&p) else { return vec![] };
    let Ok(v) = serde_json::from_str::<Value>(&s) else {
        eprintln!("known_findings.json does not parse");
        return vec![];
    };
    let mut out = vec![];
    for f in v["findings"].as_array().cloned().unwrap_or_default() {
        out.push(KnownFinding {
            property: f["property"].as_str().unwrap_or("").to_string(),
            signature: f["signature"].as_str().unwrap_or("").to_string(),
            status: f["status"].as_str().unwrap_or("").to_string(),
            what: f["what"].as_str().unwrap_or("").to_string(),
        });
    }
    out
}

/// parent: spawn shards, merge, report. Returns the process exit code.
pub fn run_parent(check: &dyn Check, tier: Tier, seed: u64) -> i32 {
    let t0 = Instant::now();
    let id = check.id();
    let outdir = PathBuf::from(format!("{VERIF_DIR}/target/run/{id}_{}", std::process::id()));
    let _ = std::fs::remove_dir_all(&outdir);
    std::fs::create_dir_all(&outdir).unwrap();
    let evidence_path = PathBuf::from(format!("{VERIF_DIR}/evidence/{id}.json"));
    let _ = std::fs::create_dir_all(evidence_path.parent().unwrap());

    let mut harness_errors: Vec<String> = vec![];
    if let Err(e) = check.prepare(tier) {
        harness_errors.push(format!("prepare failed: {e}"));
    }

    let nshards = std::env::var("VERIF_SHARDS").ok().and_then(|s| s.parse().ok()).unwrap_or_else(|| check.nshards(tier));
    let exe = std::env::current_exe().unwrap();
    let timeout = Duration::from_secs(check.shard_timeout_s(tier));
    let mut children: Vec<(u64, std::process::Child, bool)> = vec![];
    if harness_errors.is_empty() {
        for s in 0..nshards {
            let child = std::process::Command::new(&exe)
                .arg(id)
                .arg("--shard").arg(s.to_string())
                .arg("--nshards").arg(nshards.to_string())
                .arg("--tier").arg(tier.name())
                .arg("--seed").arg(seed.to_string())
                .arg("--outdir").arg(&outdir)
                .stdin(std::process::Stdio::null())
                .spawn()
                .expect("spawn shard");
            children.push((s, child, false));
        }
    }
    let mut merged = Merged {
        counters: Default::default(),
        hists: Default::default(),
        samples: vec![],
        sig_counts: Default::default(),
        violations: vec![],
        inconclusive: vec![],
        distinct: 0,
        extra: Default::default(),
        exhaustive: None,
    };
    let mut statuses: Vec<(u64, Option<std::process::ExitStatus>)> = vec![];
    // wait for all
    loop {
        let mut alive = 0;
        for (s, ch, done) in children.iter_mut() {
            if *done {
                continue;
            }
            match ch.try_wait() {
                Ok(Some(st)) => {
                    *done = true;
                    statuses.push((*s, Some(st)));
                }
                Ok(None) => {
                    if t0.elapsed() > timeout {
                        let _ = ch.kill();
                        let _ = ch.wait();
                        *done = true;
                        statuses.push((*s, None));
                    } else {
                        alive += 1;
                    }
                }
                Err(_) => {
                    *done = true;
                    statuses.push((*s, None));
                }
            }
        }
        if alive == 0 {
            break;
        }
        std::thread::sleep(Duration::from_millis(50));
    }
    let mut all_distinct: FxHashSet<u64> = Default::default();
    for (s, st) in statuses.iter() {
        let res_path = outdir.join(format!("shard_{s}.json"));
        match st {
            None => {
                let c = read_journal(&outdir, *s);
                merged.inconclusive.push(format!(
                    "shard {s} exceeded the {} s watchdog (last case {:?})",
                    timeout.as_secs(),
                    c
                ));
                continue;
            }
            Some(st) if !st.success() || !res_path.exists() => {
                use std::os::unix::process::ExitStatusExt;
                let c = read_journal(&outdir, *s).unwrap_or(CaseId { mode: "?".into(), n: 0 });
                if let Some(sig) = st.signal() {
                    // abort / stack overflow / OOM-kill inside a case: attributed through the journal
                    if sig == libc::SIGKILL {
                        merged.inconclusive.push(format!("shard {s} was killed (SIGKILL, out of memory?) in case {c:?}"));
                    } else {
                        let vs = format!("{id}|abort|signal{sig}|{}", c.mode);
                        *merged.sig_counts.entry(vs.clone()).or_insert(0) += 1;
                        merged.violations.push(Violation {
                            sig: vs,
                            detail: format!("shard process died with signal {sig} while executing case {} {}", c.mode, c.n),
                            case: c,
                            extra: Value::Null,
                        });
                    }
                } else {
                    merged.inconclusive.push(format!("shard {s} exited with {st:?} without results (last case {c:?})"));
                }
                continue;
            }
            Some(_) => {}
        }
        let v: Value = match std::fs::read(&res_path).ok().and_then(|b| serde_json::from_slice(&b).ok()) {
            Some(v) => v,
            None => {
                merged.inconclusive.push(format!("shard {s}: unreadable result"));
                continue;
            }
        };
        for (k, n) in v["counters"].as_object().unwrap() {
            *merged.counters.entry(k.clone()).or_insert(0) += n.as_u64().unwrap_or(0);
        }
        for (hn, h) in v["hists"].as_object().unwrap() {
            let m = merged.hists.entry(hn.clone()).or_default();
            for (k, n) in h.as_object().unwrap() {
                *m.entry(k.clone()).or_insert(0) += n.as_u64().unwrap_or(0);
            }
        }
        for (k, n) in v["sig_counts"].as_object().unwrap() {
            *merged.sig_counts.entry(k.clone()).or_insert(0) += n.as_u64().unwrap_or(0);
        }
        for smp in v["samples"].as_array().unwrap() {
            if merged.samples.len() < 8 && (merged.samples.len() as u64) <= *s {
                merged.samples.push(smp.clone());
            }
        }
        for vi in v["violations"].as_array().unwrap() {
            merged.violations.push(Violation {
                sig: vi["sig"].as_str().unwrap().to_string(),
                detail: vi["detail"].as_str().unwrap().to_string(),
                case: CaseId { mode: vi["mode"].as_str().unwrap().to_string(), n: vi["n"].as_u64().unwrap() },
                extra: vi["extra"].clone(),
            });
        }
        for r in v["inconclusive"].as_array().unwrap() {
            if merged.inconclusive.len() < 40 {
                merged.inconclusive.push(r.as_str().unwrap().to_string());
            }
        }
        if let Ok(mut f) = std::fs::File::open(outdir.join(format!("shard_{s}.distinct"))) {
            let mut buf = vec![];
            let _ = f.read_to_end(&mut buf);
            for ch in buf.chunks_exact(8) {
                all_distinct.insert(u64::from_le_bytes(ch.try_into().unwrap()));
            }
        }
    }
    merged.distinct = all_distinct.len() as u64;
    drop(all_distinct);
    if (tier == Tier::Thorough || std::env::var("VERIF_MIRI_FORCE").is_ok()) && !check.miri_work().is_empty() {
        miri_stage(check, seed, &outdir, &mut merged);
    }
    merged.inconclusive.extend(harness_errors);
    if merged.inconclusive.is_empty() || merged.violations.is_empty() {
        check.finalize(&mut merged, tier);
    }

    // classify violations against known findings
    let known = load_known_findings();
    let mut known_hit: BTreeMap<String, (String, u64)> = Default::default();
    let mut real: Vec<&Violation> = vec![];
    let mut real_sigs: BTreeMap<String, u64> = Default::default();
    for (sig, n) in merged.sig_counts.iter() {
        if let Some(k) = known.iter().find(|k| k.status == "known" && k.property == id && k.signature == *sig) {
            known_hit.insert(sig.clone(), (k.what.clone(), *n));
        } else {
            real_sigs.insert(sig.clone(), *n);
        }
    }
    for v in merged.violations.iter() {
        if real_sigs.contains_key(&v.sig) {
            real.push(v);
        }
    }
    for (sig, (what, n)) in known_hit.iter() {
        println!("KNOWN-FINDING: property={id} {what} [signature {sig}; observed {n}x in this run]");
    }
    let replay_dir = PathBuf::from(format!("{VERIF_DIR}/replays/{id}"));
    let mut printed: FxHashSet<String> = Default::default();
    let mut nviol = 0;
    for v in real.iter() {
        if !printed.insert(v.sig.clone()) {
            continue;
        }
        nviol += 1;
        let _ = std::fs::create_dir_all(&replay_dir);
        let fname = format!("{}_{:016x}.json", tier.name(), util::hash_str(&format!("{}{}{}", v.sig, v.case.mode, v.case.n)));
        let path = replay_dir.join(fname);
        let body = json!({
            "property": id, "tier": tier.name(), "seed": seed,
            "case": {"mode": v.case.mode, "n": v.case.n},
            "signature": v.sig, "occurrences_in_run": real_sigs[&v.sig],
            "detail": v.detail, "extra": v.extra,
        });
        let _ = std::fs::write(&path, serde_json::to_string_pretty(&body).unwrap());
        println!("VIOLATION property={id} replay={}", path.display());
        println!("  signature: {}", v.sig);
        for l in v.detail.lines().take(12) {
            println!("  | {}", util::trunc(l, 400));
        }
    }
    for r in merged.inconclusive.iter() {
        println!("INCONCLUSIVE property={id} reason={r}");
    }

    // evidence
    let evals = merged.c(check.evaluations_counter());
    let mut coverage = serde_json::Map::new();
    coverage.insert("evaluations".into(), json!(evals));
    coverage.insert("distinct_nontrivial".into(), json!(merged.distinct));
    coverage.insert("rule".into(), json!(check.rule()));
    coverage.insert("samples".into(), json!(merged.samples));
    if let Some(x) = merged.exhaustive {
        coverage.insert("exhaustive".into(), json!(x));
    }
    coverage.insert("counters".into(), json!(merged.counters));
    let mut hs = serde_json::Map::new();
    for (hn, h) in merged.hists.iter() {
        // keep evidence files readable: at most 120 keys per histogram, largest first
        let mut items: Vec<(&String, &u64)> = h.iter().collect();
        items.sort_by(|a, b| b.1.cmp(a.1).then(a.0.cmp(b.0)));
        let mut m = serde_json::Map::new();
        for (k, n) in items.iter().take(120) {
            m.insert((*k).clone(), json!(**n));
        }
        hs.insert(hn.clone(), json!({"distinct_keys": h.len(), "top": m}));
    }
    coverage.insert("observed".into(), Value::Object(hs));
    for (k, v) in merged.extra.iter() {
        coverage.insert(k.clone(), v.clone());
    }
    coverage.insert(
        "known_findings_observed".into(),
        json!(known_hit.iter().map(|(s, (w, n))| json!({"signature": s, "what": w, "occurrences": n})).collect::<Vec<_>>()),
    );
    coverage.insert("inconclusive".into(), json!(merged.inconclusive));
    coverage.insert(
        "violation_signatures".into(),
        json!(real_sigs),
    );
    let ev = json!({
        "property_id": id,
        "tier": tier.name(),
        "seed": seed,
        "level": check.level(),
        "coverage": Value::Object(coverage),
        "assumptions": check.assumptions(),
        "wall_s": t0.elapsed().as_secs_f64(),
        "violations": nviol,
    });
    std::fs::write(&evidence_path, serde_json::to_string_pretty(&ev).unwrap()).unwrap();
    let _ = std::fs::remove_dir_all(&outdir);

    let verdict = if nviol > 0 {
        1
    } else if !merged.inconclusive.is_empty() {
        2
    } else {
        0
    };
    println!(
        "{id} {}: {} evaluations, {} distinct non-trivial, {} known-finding signature(s), {} violation signature(s), {} inconclusive note(s), {:.1}s -> exit {verdict}",
        tier.name(), evals, merged.distinct, known_hit.len(), nviol, merged.inconclusive.len(), t0.elapsed().as_secs_f64()
    );
    verdict
}

/// runs the check's small Miri workload in 4 interpreter processes and merges what they observed
fn miri_stage(check: &dyn Check, seed: u64, outdir: &Path, merged: &mut Merged) {
    let id = check.id();
    let mdir = outdir.join("miri");
    let _ = std::fs::create_dir_all(&mdir);
    let n = 4u64;
    let mut children = vec![];
    for s in 0..n {
        let log = std::fs::File::create(mdir.join(format!("miri_{s}.log"))).ok();
        let mut cmd = std::process::Command::new("cargo");
        cmd.args(["+nightly", "miri", "run", "--offline", "--target-dir", "/verif/target/miri", "--bin", "vcheck", "--"])
            .arg(id)
            .args(["--shard", &s.to_string(), "--nshards", &n.to_string(), "--tier", "quick", "--seed", &seed.to_string(), "--outdir"])
            .arg(&mdir)
            .current_dir(format!("{VERIF_DIR}/harness"))
            .env("CARGO_NET_OFFLINE", "true")
            .env("MIRIFLAGS", "-Zmiri-disable-isolation")
            .env("VERIF_MIRI", "1")
            .stdin(std::process::Stdio::null());
        if let Some(l) = log {
            if let Ok(l2) = l.try_clone() {
                cmd.stdout(l2);
            }
            cmd.stderr(l);
        }
        match cmd.spawn() {
            Ok(c) => children.push((s, c)),
            Err(e) => merged.inconclusive.push(format!("cannot start cargo miri: {e}")),
        }
    }
    let t0 = Instant::now();
    for (s, mut c) in children {
        let status = loop {
            match c.try_wait() {
                Ok(Some(st)) => break Some(st),
                Ok(None) => {
                    if t0.elapsed() > Duration::from_secs(3600) {
                        let _ = c.kill();
                        let _ = c.wait();
                        break None;
                    }
                    std::thread::sleep(Duration::from_millis(500));
                }
                Err(_) => break None,
            }
        };
        let log = std::fs::read_to_string(mdir.join(format!("miri_{s}.log"))).unwrap_or_default();
        let res = mdir.join(format!("shard_{s}.json"));
        match status {
            None => merged.inconclusive.push(format!("Miri shard {s} exceeded 3600 s")),
            Some(st) if !st.success() || !res.exists() => {
                // an interpreter diagnostic (undefined behaviour, data race, leak) or a build problem
                let diag = log.lines().find(|l| l.starts_with("error")).unwrap_or("").to_string();
                if diag.contains("Undefined Behavior") {
                    let sig = format!("{id}|miri|{}", util::trunc(&diag, 80));
                    *merged.sig_counts.entry(sig.clone()).or_insert(0) += 1;
                    merged.violations.push(Violation { sig, detail: util::trunc(&log[log.find("error").unwrap_or(0)..], 3000), case: CaseId { mode: "miri".into(), n: s }, extra: Value::Null });
                } else {
                    merged.inconclusive.push(format!("Miri shard {s} ended with {st:?}: {}", util::trunc(&diag, 300)));
                }
            }
            Some(_) => {
                if let Some(v) = std::fs::read(&res).ok().and_then(|b| serde_json::from_slice::<Value>(&b).ok()) {
                    for (k, n) in v["counters"].as_object().cloned().unwrap_or_default() {
                        *merged.counters.entry(format!("miri_{k}")).or_insert(0) += n.as_u64().unwrap_or(0);
                    }
                    for vi in v["violations"].as_array().cloned().unwrap_or_default() {
                        let sig = vi["sig"].as_str().unwrap_or("").to_string();
                        *merged.sig_counts.entry(sig.clone()).or_insert(0) += 1;
                        merged.violations.push(Violation { sig, detail: vi["detail"].as_str().unwrap_or("").to_string(), case: CaseId { mode: vi["mode"].as_str().unwrap_or("miri").to_string(), n: vi["n"].as_u64().unwrap_or(0) }, extra: Value::Null });
                    }
                    for r in v["inconclusive"].as_array().cloned().unwrap_or_default() {
                        merged.inconclusive.push(format!("miri: {}", r.as_str().unwrap_or("")));
                    }
                }
            }
        }
    }
    merged.extra.insert("miri".into(), json!({"interpreter_processes": n, "cases": merged.c("miri_cases"), "note": "no undefined behaviour reported on these executions; not a memory-safety claim"}));
}

pub fn run_replay(check: &dyn Check, path: &Path) -> i32 {
    util::install_panic_hook();
    let Ok(s) = std::fs::read_to_string(path) else {
        eprintln!("cannot read {}", path.display());
        return 2;
    };
    let v: Value = serde_json::from_str(&s).expect("replay json");
    let tier = Tier::parse(v["tier"].as_str().unwrap_or("quick")).unwrap_or(Tier::Quick);
    let seed = v["seed"].as_u64().unwrap_or(1);
    let workdir = PathBuf::from(format!("{VERIF_DIR}/target/run/replay_{}", std::process::id()));
    let _ = std::fs::create_dir_all(&workdir);
    let mut sh = Shard::new(check.id(), tier, seed, 0, 1, &workdir);
    sh.verbose = true;
    check.shard_begin(&mut sh);
    sh.cur = CaseId { mode: v["case"]["mode"].as_str().unwrap().to_string(), n: v["case"]["n"].as_u64().unwrap() };
    let case = sh.cur.clone();
    println!("replaying {} case {} {} (seed {seed}, tier {})", check.id(), case.mode, case.n, tier.name());
    if let Err(p) = util::catch(|| check.run_case(&mut sh, &case)) {
        sh.panic_violation("uncaught", &p, "");
    }
    check.shard_end(&mut sh);
    if std::env::var("VERIF_KEEP").is_err() { let _ = std::fs::remove_dir_all(&workdir); }
    if sh.violations.is_empty() {
        println!("no violation reproduced");
        return 0;
    }
    let known = load_known_findings();
    let mut unlisted = 0;
    for v in sh.violations.iter() {
        if let Some(k) = known.iter().find(|k| k.status == "known" && k.property == check.id() && k.signature == v.sig) {
            println!("KNOWN-FINDING: property={} {} [signature {}]", check.id(), k.what, v.sig);
        } else {
            unlisted += 1;
            println!("  signature: {}", v.sig);
            for l in v.detail.lines().take(60) {
                println!("  | {l}");
            }
        }
    }
    if unlisted == 0 {
        return 0;
    }
    println!("VIOLATION property={} replay={}", check.id(), path.display());
    1
}

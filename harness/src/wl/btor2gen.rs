//! G3: btor2 text — (a) grammar-directed generator of well-formed files, (b) mutator

use crate::util::Rng;
use num_bigint::BigUint;
use std::collections::BTreeMap;

#[derive(Clone, Copy, Debug, PartialEq, Eq, PartialOrd, Ord)]
pub enum S {
    Bv(u32),
    Arr(u32, u32),
}

pub struct B2Gen<'a> {
    rng: &'a mut Rng,
    pub lines: Vec<String>,
    next_id: i64,
    sort_ids: BTreeMap<S, i64>,
    nodes: BTreeMap<S, Vec<i64>>,
    states: Vec<(i64, S)>,
    pub ops_used: Vec<(String, S, bool)>,
    name_ctr: u32,
    issued: Vec<String>,
}

pub const BIN_SAME: &[&str] = &["and", "nand", "nor", "or", "xnor", "xor", "sll", "sra", "srl", "add", "mul", "sdiv", "udiv", "smod", "srem", "urem", "sub"];
pub const BIN_CMP: &[&str] = &["sgt", "ugt", "sgte", "ugte", "slt", "ult", "slte", "ulte"];
pub const UNARY: &[&str] = &["not", "neg", "redand", "redor", "redxor"];

impl<'a> B2Gen<'a> {
    pub fn new(rng: &'a mut Rng) -> Self {
        let start = if rng.chance(1, 4) { rng.range(2, 50) as i64 } else { 1 };
        B2Gen { rng, lines: vec![], next_id: start, sort_ids: Default::default(), nodes: Default::default(), states: vec![], ops_used: vec![], name_ctr: 0, issued: vec![] }
    }

    fn id(&mut self) -> i64 {
        let i = self.next_id;
        // ids need not be consecutive
        self.next_id += if self.rng.chance(1, 10) { self.rng.range(2, 5) as i64 } else { 1 };
        i
    }

    fn sort(&mut self, s: S) -> i64 {
        if let Some(i) = self.sort_ids.get(&s) {
            return *i;
        }
        let line = match s {
            S::Bv(w) => {
                let i = self.id();
                self.lines.push(format!("{i} sort bitvec {w}"));
                i
            }
            S::Arr(iw, dw) => {
                let a = self.sort(S::Bv(iw));
                let b = self.sort(S::Bv(dw));
                let i = self.id();
                self.lines.push(format!("{i} sort array {a} {b}"));
                i
            }
        };
        self.sort_ids.insert(s, line);
        line
    }

    fn name(&mut self, pct: u64) -> String {
        if self.rng.below(100) < pct {
            // one name in six repeats an earlier one, as it is or with `$` and `_` exchanged (yosys writes `$`, the
            // reader turns it into `_`): the reader has to keep such signals apart
            if !self.issued.is_empty() && self.rng.chance(1, 6) {
                let prev = self.rng.pick(&self.issued).clone();
                return match self.rng.below(3) {
                    0 => format!(" {prev}"),
                    1 => format!(" {}", prev.replace('$', "_")),
                    _ => format!(" {}", prev.replacen('_', "$", 1)),
                };
            }
            self.name_ctr += 1;
            let n = self.name_ctr;
            // names of the form the reader invents for anonymous lines, on explicitly named lines
            if self.rng.chance(1, 12) {
                let nm = format!("{}{}", self.rng.pick(&["_input_", "_state_", "_input", "_state", "_output_"]), if self.rng.flip() { self.rng.below(4).to_string() } else { String::new() });
                self.issued.push(nm.clone());
                return format!(" {nm}");
            }
            let (nm, comment) = match self.rng.below(6) {
                0 => (format!("sig{n}"), ""),
                1 => (format!("top.u{n}.q"), ""),
                2 => (format!("$flat_{n}"), ""),
                3 => (format!("n{n}"), " ; a comment"),
                4 => (format!("top.r{n}$q"), ""),
                _ => (format!("x_{n}"), ""),
            };
            self.issued.push(nm.clone());
            format!(" {nm}{comment}")
        } else {
            String::new()
        }
    }

    fn add_node(&mut self, s: S, id: i64) {
        self.nodes.entry(s).or_default().push(id);
    }

    fn pick_width(&mut self) -> u32 {
        match self.rng.below(12) {
            0..=2 => 1,
            3..=6 => self.rng.range(2, 8) as u32,
            7 => 16,
            8 => self.rng.range(31, 33) as u32,
            9 => self.rng.range(63, 65) as u32,
            10 => self.rng.range(127, 129) as u32,
            _ => self.rng.range(9, 70) as u32,
        }
    }

    /// a constant line of the given width (all spellings whose reading is not debatable)
    fn constant(&mut self, w: u32) -> i64 {
        let sid = self.sort(S::Bv(w));
        let i = self.id();
        let v: BigUint = crate::wl::expr::lit_shape(self.rng, w);
        let line = match self.rng.below(7) {
            0 => format!("{i} zero {sid}"),
            1 => format!("{i} one {sid}"),
            2 => format!("{i} ones {sid}"),
            3 => {
                let mut s = v.to_str_radix(2);
                while (s.len() as u32) < w {
                    s.insert(0, '0');
                }
                format!("{i} const {sid} {s}")
            }
            4 => format!("{i} constd {sid} {}", v.to_str_radix(10)),
            5 => format!("{i} consth {sid} {}", v.to_str_radix(16)),
            _ => {
                let mut s = v.to_str_radix(16);
                while (s.len() as u32) < w.div_ceil(4) {
                    s.insert(0, '0');
                }
                if self.rng.flip() {
                    s = s.to_uppercase();
                }
                format!("{i} consth {sid} {s}")
            }
        };
        let nm = self.name(10);
        self.lines.push(format!("{line}{nm}"));
        self.add_node(S::Bv(w), i);
        i
    }

    /// an existing (or fresh constant) node of sort s, as an operand token (maybe negated)
    fn operand(&mut self, s: S, allow_neg: bool) -> (String, bool) {
        let have = self.nodes.get(&s).map(|v| !v.is_empty()).unwrap_or(false);
        let id = if have && !self.rng.chance(1, 8) {
            *self.rng.pick(&self.nodes[&s])
        } else {
            match s {
                S::Bv(w) => self.constant(w),
                S::Arr(iw, dw) => {
                    // a fresh array input
                    let sid = self.sort(S::Arr(iw, dw));
                    let i = self.id();
                    let nm = self.name(50);
                    self.lines.push(format!("{i} input {sid}{nm}"));
                    self.add_node(s, i);
                    i
                }
            }
        };
        let neg = allow_neg && matches!(s, S::Bv(_)) && self.rng.chance(1, 5);
        (if neg { format!("-{id}") } else { format!("{id}") }, neg)
    }

    fn any_bv_sort(&mut self) -> S {
        let have: Vec<S> = self.nodes.keys().copied().filter(|s| matches!(s, S::Bv(_))).collect();
        if have.is_empty() || self.rng.chance(1, 6) { S::Bv(self.pick_width()) } else { *self.rng.pick(&have) }
    }

    fn any_arr_sort(&mut self) -> S {
        let have: Vec<S> = self.nodes.keys().copied().filter(|s| matches!(s, S::Arr(..))).collect();
        if have.is_empty() || self.rng.chance(1, 4) {
            let dw = self.pick_width().min(65);
            S::Arr(self.rng.range(1, 5) as u32, dw)
        } else {
            *self.rng.pick(&have)
        }
    }

    fn op_node(&mut self) {
        let k = self.rng.below(100);
        let (op, res, text, neg): (String, S, String, bool) = if k < 12 {
            let s = self.any_bv_sort();
            let S::Bv(w) = s else { unreachable!() };
            let op = *self.rng.pick(UNARY);
            let (a, n) = self.operand(s, true);
            let res = if op.starts_with("red") { S::Bv(1) } else { S::Bv(w) };
            (op.to_string(), res, a, n)
        } else if k < 20 {
            let s = self.any_bv_sort();
            let S::Bv(w) = s else { unreachable!() };
            let by = *self.rng.pick(&[0u32, 1, 1, 2, 3, 7, 31, 32, 33, 64]);
            let op = if self.rng.flip() { "sext" } else { "uext" };
            let (a, n) = self.operand(s, true);
            (op.to_string(), S::Bv(w + by), format!("{a} {by}"), n)
        } else if k < 28 {
            let s = self.any_bv_sort();
            let S::Bv(w) = s else { unreachable!() };
            let l = self.rng.below(w as u64) as u32;
            let u = self.rng.range(l as u64, w as u64 - 1) as u32;
            let (a, n) = self.operand(s, true);
            ("slice".to_string(), S::Bv(u - l + 1), format!("{a} {u} {l}"), n)
        } else if k < 55 {
            let s = self.any_bv_sort();
            let op = *self.rng.pick(BIN_SAME);
            let (a, n1) = self.operand(s, true);
            let (b, n2) = self.operand(s, true);
            (op.to_string(), s, format!("{a} {b}"), n1 || n2)
        } else if k < 68 {
            let s = self.any_bv_sort();
            let op = *self.rng.pick(BIN_CMP);
            let (a, n1) = self.operand(s, true);
            let (b, n2) = self.operand(s, true);
            (op.to_string(), S::Bv(1), format!("{a} {b}"), n1 || n2)
        } else if k < 73 {
            let op = if self.rng.flip() { "iff" } else { "implies" };
            let (a, n1) = self.operand(S::Bv(1), true);
            let (b, n2) = self.operand(S::Bv(1), true);
            (op.to_string(), S::Bv(1), format!("{a} {b}"), n1 || n2)
        } else if k < 80 {
            let s = if self.rng.chance(1, 5) { self.any_arr_sort() } else { self.any_bv_sort() };
            let op = if self.rng.flip() { "eq" } else { "neq" };
            let (a, n1) = self.operand(s, true);
            let (b, n2) = self.operand(s, true);
            (op.to_string(), S::Bv(1), format!("{a} {b}"), n1 || n2)
        } else if k < 86 {
            let s1 = self.any_bv_sort();
            let s2 = self.any_bv_sort();
            let (S::Bv(w1), S::Bv(w2)) = (s1, s2) else { unreachable!() };
            if w1 + w2 > 300 {
                return;
            }
            let (a, n1) = self.operand(s1, true);
            let (b, n2) = self.operand(s2, true);
            ("concat".to_string(), S::Bv(w1 + w2), format!("{a} {b}"), n1 || n2)
        } else if k < 90 {
            let s = self.any_arr_sort();
            let S::Arr(iw, dw) = s else { unreachable!() };
            let (a, _) = self.operand(s, false);
            let (i, n) = self.operand(S::Bv(iw), true);
            ("read".to_string(), S::Bv(dw), format!("{a} {i}"), n)
        } else if k < 94 {
            let s = self.any_arr_sort();
            let S::Arr(iw, dw) = s else { unreachable!() };
            let (a, _) = self.operand(s, false);
            let (i, n1) = self.operand(S::Bv(iw), true);
            let (d, n2) = self.operand(S::Bv(dw), true);
            ("write".to_string(), s, format!("{a} {i} {d}"), n1 || n2)
        } else {
            let s = if self.rng.chance(1, 5) { self.any_arr_sort() } else { self.any_bv_sort() };
            let (c, n0) = self.operand(S::Bv(1), true);
            let (a, n1) = self.operand(s, true);
            let (b, n2) = self.operand(s, true);
            ("ite".to_string(), s, format!("{c} {a} {b}"), n0 || n1 || n2)
        };
        let sid = self.sort(res);
        let i = self.id();
        let nm = self.name(20);
        self.lines.push(format!("{i} {op} {sid} {text}{nm}"));
        self.add_node(res, i);
        let arg_sort = res;
        self.ops_used.push((op, arg_sort, neg));
    }

    pub fn generate(mut self) -> (String, Vec<(String, S, bool)>) {
        if self.rng.chance(1, 3) {
            self.lines.push("; generated btor2 file".into());
        }
        // a boolean sort up front is common practice
        self.sort(S::Bv(1));
        let ninputs = self.rng.range(1, 3);
        for _ in 0..ninputs {
            let s = if self.rng.chance(1, 6) { self.any_arr_sort() } else { S::Bv(self.pick_width()) };
            let sid = self.sort(s);
            let i = self.id();
            let nm = self.name(60);
            self.lines.push(format!("{i} input {sid}{nm}"));
            self.add_node(s, i);
        }
        let nstates = self.rng.range(1, 4);
        for _ in 0..nstates {
            let s = if self.rng.chance(1, 5) { self.any_arr_sort() } else { S::Bv(self.pick_width()) };
            let sid = self.sort(s);
            let i = self.id();
            let nm = self.name(60);
            self.lines.push(format!("{i} state {sid}{nm}"));
            self.add_node(s, i);
            self.states.push((i, s));
        }
        let nops = self.rng.range(4, 40);
        for _ in 0..nops {
            self.op_node();
            if self.rng.chance(1, 25) {
                self.lines.push(String::new());
            }
        }
        // the alias idiom of yosys: a named `uext <sort> <state> 0` line that stands for the state itself
        for (st, s) in self.states.clone() {
            if let S::Bv(_) = s {
                if self.rng.chance(1, 3) {
                    let sid = self.sort(s);
                    let i = self.id();
                    let nm = self.name(100);
                    self.lines.push(format!("{i} uext {sid} {st} 0{nm}"));
                    self.add_node(s, i);
                }
            }
        }
        // init / next
        for (st, s) in self.states.clone() {
            let sid = self.sort(s);
            match self.rng.below(4) {
                0 => {} // neither: demoted to an input by the reader
                k => {
                    if k != 2 {
                        // init
                        let v = match s {
                            S::Arr(_, dw) if self.rng.flip() => self.constant(dw).to_string(),
                            S::Bv(w) if self.rng.chance(2, 3) => self.constant(w).to_string(),
                            _ => self.operand(s, false).0,
                        };
                        let i = self.id();
                        self.lines.push(format!("{i} init {sid} {st} {v}"));
                    }
                    if k != 1 || self.rng.flip() {
                        let (v, _) = self.operand(s, true);
                        let i = self.id();
                        self.lines.push(format!("{i} next {sid} {st} {v}"));
                    }
                }
            }
        }
        let nb = self.rng.range(1, 3);
        for _ in 0..nb {
            let (v, _) = self.operand(S::Bv(1), true);
            let i = self.id();
            let nm = self.name(40);
            self.lines.push(format!("{i} bad {v}{nm}"));
        }
        for _ in 0..self.rng.below(3) {
            let (v, _) = self.operand(S::Bv(1), true);
            let i = self.id();
            let nm = self.name(40);
            self.lines.push(format!("{i} constraint {v}{nm}"));
        }
        for _ in 0..self.rng.below(3) {
            let s = self.any_bv_sort();
            let (v, _) = self.operand(s, true);
            let i = self.id();
            let nm = self.name(70);
            self.lines.push(format!("{i} output {v}{nm}"));
        }
        let eol = if self.rng.chance(1, 12) { "\r\n" } else { "\n" };
        let _ = eol;
        (self.lines.join("\n") + "\n", self.ops_used)
    }
}

pub fn gen_btor2(rng: &mut Rng) -> (String, Vec<(String, S, bool)>) {
    B2Gen::new(rng).generate()
}

// ------------------------------------------------------------------------------------------------
// (b) mutator

const SPECIAL_NUMBERS: &[&str] = &["0", "1", "-1", "2", "4294967295", "4294967296", "4294967297", "9223372036854775808", "18446744073709551616", "99999999999999999999", "-0", "00", "+1", "1e3", "0x10"];
const JUNK: &[&str] = &["", " ", "\t", ";", "✔", "\u{0}", "\u{7f}", "\u{feff}", "ä", "sort", "bitvec", "array", "state", "-", "--1", "😀", "\u{200b}"];
const OPS: &[&str] = &[
    "not", "inc", "dec", "neg", "redand", "redor", "redxor", "slice", "uext", "sext", "iff", "implies", "sgt", "ugt", "sgte", "ugte", "slt", "ult", "slte", "ulte", "and", "nand", "nor", "or", "xnor", "xor", "rol",
    "ror", "sll", "sra", "srl", "add", "mul", "sdiv", "udiv", "smod", "srem", "urem", "sub", "saddo", "uaddo", "sdivo", "udivo", "smulo", "umulo", "ssubo", "usubo", "concat", "eq", "neq", "read", "write", "ite", "sort",
    "input", "output", "bad", "constraint", "fair", "justice", "state", "next", "init", "const", "constd", "consth", "zero", "one", "ones",
];

/// returns the mutated text and a label of the mutation kind
pub fn mutate(rng: &mut Rng, text: &str) -> (String, &'static str) {
    let mut lines: Vec<String> = text.lines().map(|s| s.to_string()).collect();
    if lines.is_empty() {
        return (text.to_string(), "none");
    }
    let nmut = if rng.chance(2, 3) { 1 } else { rng.range(2, 4) };
    let mut label = "none";
    for _ in 0..nmut {
        let li = rng.usize(lines.len());
        let kind = rng.below(20);
        label = match kind {
            0 => {
                lines.remove(li);
                if lines.is_empty() {
                    lines.push(String::new());
                }
                "delete-line"
            }
            1 => {
                let l = lines[li].clone();
                lines.insert(li, l);
                "duplicate-line"
            }
            2 => {
                let lj = rng.usize(lines.len());
                lines.swap(li, lj);
                "swap-lines"
            }
            3 => {
                // move a line to the front (use before definition)
                let l = lines.remove(li);
                lines.insert(0, l);
                "move-line-front"
            }
            4..=12 => {
                // token level
                let mut toks: Vec<String> = lines[li].split(' ').map(|s| s.to_string()).collect();
                if toks.is_empty() {
                    continue;
                }
                let ti = rng.usize(toks.len());
                let width_pos = ti >= 1 && (toks[ti - 1] == "bitvec" || (toks.len() > 1 && (toks[1] == "uext" || toks[1] == "sext") && ti == 4));
                let l = match rng.below(9) {
                    0 => {
                        toks.remove(ti);
                        "drop-token"
                    }
                    1 => {
                        toks.insert(ti, rng.pick(SPECIAL_NUMBERS).to_string());
                        "insert-number"
                    }
                    2 => {
                        // flip the sign of a number
                        if let Some(r) = toks[ti].strip_prefix('-') {
                            toks[ti] = r.to_string();
                        } else {
                            toks[ti] = format!("-{}", toks[ti]);
                        }
                        "flip-sign"
                    }
                    3 => {
                        // nearby number
                        if let Ok(n) = toks[ti].parse::<i64>() {
                            let d = rng.range(1, 3) as i64 * if rng.flip() { 1 } else { -1 };
                            toks[ti] = format!("{}", n + d);
                        }
                        "nudge-number"
                    }
                    4 => {
                        let v = if width_pos { *rng.pick(&["0", "1", "64", "65", "65536", "129"]) } else { *rng.pick(SPECIAL_NUMBERS) };
                        toks[ti] = v.to_string();
                        "special-number"
                    }
                    5 => {
                        toks[ti] = rng.pick(OPS).to_string();
                        "replace-with-op"
                    }
                    6 => {
                        toks[ti] = rng.pick(JUNK).to_string();
                        "junk-token"
                    }
                    7 => {
                        // another id that occurs in the file
                        let other = &lines[rng.usize(lines.len())];
                        if let Some(t) = other.split(' ').next() {
                            if !t.is_empty() && !width_pos {
                                toks[ti] = t.to_string();
                            }
                        }
                        "other-id"
                    }
                    _ => {
                        let t = toks[ti].clone();
                        toks.insert(ti, t);
                        "duplicate-token"
                    }
                };
                lines[li] = toks.join(" ");
                l
            }
            13 => {
                lines[li] = format!("{} ; {}", lines[li], rng.pick(JUNK));
                "append-comment"
            }
            14 => {
                // byte level
                let mut b = lines[li].clone().into_bytes();
                if !b.is_empty() {
                    let bi = rng.usize(b.len());
                    b[bi] = *rng.pick(&[0u8, 9, 13, 32, 45, 48, 57, 59, 127, 200, 255]);
                }
                lines[li] = String::from_utf8_lossy(&b).to_string();
                "byte-flip"
            }
            15 => {
                lines[li] = lines[li].replace(' ', "\t");
                "tabs"
            }
            16 => {
                lines[li].push('\r');
                "crlf"
            }
            17 => {
                let c = lines[li].len() / 2;
                let mut cut = c;
                while !lines[li].is_char_boundary(cut) {
                    cut -= 1;
                }
                lines[li].truncate(cut);
                "truncate-line"
            }
            18 => {
                lines.insert(li, format!("{} sort array {} {}", rng.range(1, 400), rng.range(1, 40), rng.range(1, 40)));
                "insert-array-sort"
            }
            _ => {
                let op = rng.pick(OPS);
                let n = rng.below(5);
                let mut l = format!("{} {}", rng.range(1, 400), op);
                for _ in 0..n {
                    l.push_str(&format!(" {}", if rng.chance(1, 6) { rng.pick(SPECIAL_NUMBERS).to_string() } else { format!("{}", rng.range(1, 60) as i64 * if rng.chance(1, 6) { -1 } else { 1 }) }));
                }
                lines.insert(li, l);
                "insert-random-line"
            }
        };
    }
    // widths are capped so that memory exhaustion is not mistaken for a crash
    for l in lines.iter_mut() {
        let toks: Vec<&str> = l.split([' ', '\t']).filter(|t| !t.is_empty()).collect();
        let mut fix: Option<usize> = None;
        if toks.len() >= 4 && toks[1] == "sort" && toks[2] == "bitvec" {
            fix = Some(3);
        } else if toks.len() >= 5 && (toks[1] == "uext" || toks[1] == "sext") {
            fix = Some(4);
        }
        if let Some(k) = fix {
            let too_big = match toks[k].parse::<u64>() {
                Ok(n) => n > 65536,
                Err(_) => toks[k].len() > 5 && toks[k].chars().all(|c| c.is_ascii_digit()),
            };
            if too_big {
                let mut t: Vec<String> = toks.iter().map(|x| x.to_string()).collect();
                t[k] = "65536".into();
                *l = t.join(" ");
            }
        }
    }
    (lines.join("\n") + "\n", label)
}

/// single-token change of a sort id, operand id, width or slice bound (for ill-sorted variants)
pub fn sort_level_mutation(rng: &mut Rng, text: &str) -> Option<String> {
    let mut lines: Vec<String> = text.lines().map(|s| s.to_string()).collect();
    let cand: Vec<usize> = lines
        .iter()
        .enumerate()
        .filter(|(_, l)| {
            let t: Vec<&str> = l.split(' ').collect();
            t.len() >= 4 && !l.starts_with(';') && !matches!(t[1], "sort" | "input" | "state" | "bad" | "constraint" | "output")
        })
        .map(|(i, _)| i)
        .collect();
    if cand.is_empty() {
        return None;
    }
    let li = *rng.pick(&cand);
    let code_end = lines[li].find(';').unwrap_or(lines[li].len());
    let (code, rest) = lines[li].split_at(code_end);
    let mut toks: Vec<String> = code.split(' ').filter(|t| !t.is_empty()).map(|s| s.to_string()).collect();
    let rest = rest.to_string();
    // numeric tokens after the op
    let numeric: Vec<usize> = (2..toks.len()).filter(|i| toks[*i].parse::<i64>().is_ok()).collect();
    if numeric.is_empty() {
        return None;
    }
    let ti = *rng.pick(&numeric);
    // replace by another id / number occurring in the file
    let ids: Vec<String> = text.lines().filter_map(|l| l.split(' ').next().map(|s| s.to_string())).filter(|s| s.parse::<i64>().is_ok()).collect();
    let newv = if rng.chance(1, 3) {
        let n: i64 = toks[ti].parse().unwrap();
        format!("{}", n + if rng.flip() { 1 } else { -1 })
    } else {
        rng.pick(&ids).clone()
    };
    if newv == toks[ti] {
        return None;
    }
    toks[ti] = newv;
    lines[li] = format!("{}{}", toks.join(" "), if rest.is_empty() { String::new() } else { format!(" {rest}") });
    Some(lines.join("\n") + "\n")
}

//! G2: transition-system generator

use super::expr::{ExprGen, GenCfg};
use crate::refsem::expr_eval as r2;
use crate::util::Rng;
use patronus::expr::{Context, ExprRef};
use patronus::system::{State, TransitionSystem};

#[derive(Clone, Debug)]
pub struct SysCfg {
    pub max_states: u64,
    pub max_inputs: u64,
    pub max_state_bits: u32,
    pub max_input_bits: u32,
    pub max_bv_width: u32,
    pub arrays: bool,
    pub divrem: bool,
    /// init expressions may read earlier states
    pub init_reads_states: bool,
    /// init expressions may read inputs (step 0)
    pub init_reads_inputs: bool,
    /// states without init are allowed
    pub free_states: bool,
    /// anonymous `_input_N` inputs
    pub anonymous_inputs: bool,
    pub max_depth: u32,
    /// array states / inputs (subject to `arrays`)
    pub array_states: bool,
    pub array_inputs: bool,
    /// states that have an init but no next, and states with neither
    pub nextless_states: bool,
    /// one state in this many has no next function (when `nextless_states` is set)
    pub nextless_one_in: u64,
    /// appended to every generated name (e.g. `_state`, `_input_1`: words the btor2 front end uses for
    /// the names it invents itself, here at the end of ordinary names)
    pub name_suffix: String,
    pub array_eq: bool,
    /// constant arrays only as init values
    pub array_const_only_in_init: bool,
    /// a third of the systems have no states at all
    pub allow_stateless: bool,
    /// bare symbols as next / init / bad functions, init and next sharing one expression node
    pub plain_shapes: bool,
}

impl Default for SysCfg {
    fn default() -> Self {
        SysCfg {
            max_states: 4,
            max_inputs: 3,
            max_state_bits: 10,
            max_input_bits: 4,
            max_bv_width: 4,
            arrays: true,
            divrem: true,
            init_reads_states: true,
            init_reads_inputs: false,
            free_states: true,
            anonymous_inputs: true,
            max_depth: 3,
            array_states: true,
            array_inputs: false,
            nextless_states: false,
            nextless_one_in: 6,
            name_suffix: String::new(),
            array_eq: true,
            array_const_only_in_init: false,
            allow_stateless: false,
            plain_shapes: true,
        }
    }
}

pub struct GenSys {
    pub sys: TransitionSystem,
    /// named inner nodes (name, expr)
    pub named: Vec<(String, ExprRef)>,
}

fn bits_of(ctx: &Context, s: ExprRef) -> u32 {
    match super::expr::s_type(ctx, s) {
        patronus::expr::Type::BV(w) => w,
        patronus::expr::Type::Array(a) => (1u32 << a.index_width) * a.data_width,
    }
}

pub fn gen_system(rng: &mut Rng, ctx: &mut Context, cfg: &SysCfg, prefix: &str) -> GenSys {
    let sfx = cfg.name_suffix.clone();
    let mut sys = TransitionSystem::new(format!("{prefix}sys"));
    // ---- symbols
    let nstates = if cfg.allow_stateless && rng.chance(1, 3) { 0 } else { rng.range(1, cfg.max_states) };
    let ninputs = rng.below(cfg.max_inputs + 1);
    let mut state_syms: Vec<ExprRef> = vec![];
    let mut bits = 0u32;
    for i in 0..nstates {
        let remaining = cfg.max_state_bits - bits;
        if remaining == 0 {
            break;
        }
        let s = if cfg.arrays && cfg.array_states && remaining >= 2 && rng.chance(1, 5) {
            // array state: index <= 2 bits, data <= 2 bits, as many cells as the bit budget allows
            let mut iw = rng.range(1, 2) as u32;
            let mut dw = rng.range(1, 2) as u32;
            while (1u32 << iw) * dw > remaining {
                if dw > 1 {
                    dw -= 1;
                } else {
                    iw -= 1;
                }
                if iw == 0 {
                    break;
                }
            }
            if iw == 0 {
                ctx.bv_symbol(&format!("{prefix}s{i}{sfx}"), 1)
            } else {
                ctx.array_symbol(&format!("{prefix}mem{i}{sfx}"), iw, dw)
            }
        } else {
            let w = (rng.range(1, cfg.max_bv_width as u64) as u32).min(remaining);
            ctx.bv_symbol(&format!("{prefix}s{i}{sfx}"), w)
        };
        bits += bits_of(ctx, s);
        state_syms.push(s);
    }
    let mut input_syms: Vec<ExprRef> = vec![];
    let mut ibits = 0u32;
    for i in 0..ninputs {
        let remaining = cfg.max_input_bits - ibits;
        if remaining == 0 {
            break;
        }
        let w = (rng.range(1, cfg.max_bv_width as u64) as u32).min(remaining);
        let name = if cfg.anonymous_inputs && rng.chance(1, 4) { format!("_input_{}", 10 + i) } else { format!("{prefix}in{i}{sfx}") };
        let s = if cfg.arrays && cfg.array_inputs && remaining >= 2 && rng.chance(1, 6) { ctx.array_symbol(&name, 1, 1) } else { ctx.bv_symbol(&name, w) };
        ibits += bits_of(ctx, s);
        input_syms.push(s);
    }
    for &i in &input_syms {
        sys.add_input(ctx, i);
    }

    // ---- expressions: one generator for all roots so that sub-terms are shared between them
    let mut ecfg = GenCfg::default();
    ecfg.fixed_symbols = true;
    ecfg.small = true;
    ecfg.max_width = cfg.max_bv_width.max(4) + 2;
    ecfg.max_depth = cfg.max_depth;
    ecfg.divrem = cfg.divrem;
    ecfg.arrays = cfg.arrays;
    ecfg.max_index_width = 2;
    ecfg.max_data_width = 2;
    ecfg.share_pct = 40;
    ecfg.wide_mul = false;
    ecfg.array_eq = cfg.array_eq;
    ecfg.array_const = !cfg.array_const_only_in_init;
    let mut named = vec![];
    let mut g = ExprGen::new(rng, ecfg);

    // init expressions (in state order; may read earlier states and, optionally, inputs)
    let mut inits: Vec<Option<ExprRef>> = vec![];
    for (k, &s) in state_syms.iter().enumerate() {
        g.clear_symbols();
        if cfg.init_reads_states {
            for &e in &state_syms[..k] {
                g.register_symbol(ctx, e);
            }
        }
        if cfg.init_reads_inputs {
            for &e in &input_syms {
                g.register_symbol(ctx, e);
            }
        }
        let want_init = !cfg.free_states || g.rng.chance(2, 3);
        if !want_init {
            inits.push(None);
            continue;
        }
        let d = g.rng.below(cfg.max_depth as u64) as u32;
        let readable: Vec<ExprRef> = (if cfg.init_reads_states { state_syms[..k].to_vec() } else { vec![] }).into_iter().chain(if cfg.init_reads_inputs { input_syms.clone() } else { vec![] }).filter(|o| super::expr::s_type(ctx, *o) == super::expr::s_type(ctx, s)).collect();
        if cfg.plain_shapes && !readable.is_empty() && g.rng.chance(1, 8) {
            // the initial value is a bare symbol (an earlier register, a reset-value input)
            inits.push(Some(*g.rng.pick(&readable)));
            continue;
        }
        let e = match super::expr::s_type(ctx, s) {
            patronus::expr::Type::BV(w) => {
                if g.rng.chance(1, 2) {
                    g.literal(ctx, w)
                } else {
                    g.bv(ctx, w, d)
                }
            }
            patronus::expr::Type::Array(a) => {
                if g.rng.chance(1, 2) {
                    let dflt = g.literal(ctx, a.data_width);
                    ctx.array_const(dflt, a.index_width)
                } else {
                    g.array(ctx, a.index_width, a.data_width, d)
                }
            }
        };
        inits.push(Some(e));
    }
    // everything else reads all states and inputs
    g.clear_symbols();
    for &e in state_syms.iter().chain(input_syms.iter()) {
        g.register_symbol(ctx, e);
    }
    let mut nexts: Vec<Option<ExprRef>> = vec![];
    for &s in state_syms.iter() {
        let d = g.rng.range(1, cfg.max_depth as u64) as u32;
        if cfg.nextless_states && g.rng.chance(1, cfg.nextless_one_in) {
            nexts.push(None);
            continue;
        }
        let same_type: Vec<ExprRef> = state_syms.iter().chain(input_syms.iter()).copied().filter(|o| *o != s && super::expr::s_type(ctx, *o) == super::expr::s_type(ctx, s)).collect();
        let k = nexts.len();
        let e = if g.rng.chance(1, 8) {
            s // constant state
        } else if cfg.plain_shapes && !same_type.is_empty() && g.rng.chance(1, 6) {
            // a register that just samples an input or another register (pipelines, shift registers):
            // the next function is a bare symbol, possibly used nowhere else
            *g.rng.pick(&same_type)
        } else if cfg.plain_shapes && inits[k].map(|i| !ctx[i].is_bv_lit() && !ctx[i].is_symbol()).unwrap_or(false) && !r2::symbols_of(ctx, &[inits[k].unwrap()]).is_empty() && g.rng.chance(1, 3) {
            // init and next are the very same expression node
            inits[k].unwrap()
        } else {
            match super::expr::s_type(ctx, s) {
                patronus::expr::Type::BV(w) => g.bv(ctx, w, d),
                patronus::expr::Type::Array(a) => g.array(ctx, a.index_width, a.data_width, d),
            }
        };
        nexts.push(Some(e));
    }
    for ((s, i), n) in state_syms.iter().zip(inits.iter()).zip(nexts.iter()) {
        sys.add_state(ctx, State { symbol: *s, init: *i, next: *n });
    }
    // constraints
    let ncons = match g.rng.below(4) {
        0 | 1 => 0,
        2 => 1,
        _ => 2,
    };
    for _ in 0..ncons {
        let d = g.rng.range(1, cfg.max_depth as u64) as u32;
        // bias towards satisfiable constraints: disjunction with a comparison on an input
        let c = g.bv(ctx, 1, d);
        let c = if g.rng.chance(1, 2) {
            let o = g.bv(ctx, 1, 1);
            ctx.or(c, o)
        } else {
            c
        };
        sys.constraints.push(c);
    }
    // bad states
    let nbad = g.rng.range(1, 3);
    for k in 0..nbad {
        let d = g.rng.range(1, cfg.max_depth as u64) as u32;
        let b = match g.rng.below(12) {
            0 => ctx.get_true(),
            1 => ctx.get_false(),
            2 if k > 0 => sys.bad_states[0], // duplicate
            5 if cfg.plain_shapes => {
                // a bare 1-bit state or input as bad state
                let one: Vec<ExprRef> = state_syms.iter().chain(input_syms.iter()).copied().filter(|o| super::expr::s_type(ctx, *o) == patronus::expr::Type::BV(1)).collect();
                if one.is_empty() { g.bv(ctx, 1, d) } else { *g.rng.pick(&one) }
            }
            3 | 4 if !state_syms.is_empty() => {
                // equality of a state with a literal: reachable only sometimes / late
                let s = *g.rng.pick(&state_syms);
                match super::expr::s_type(ctx, s) {
                    patronus::expr::Type::BV(w) => {
                        let l = g.literal(ctx, w);
                        ctx.equal(s, l)
                    }
                    _ => g.bv(ctx, 1, d),
                }
            }
            _ => g.bv(ctx, 1, d),
        };
        sys.bad_states.push(b);
    }
    // outputs
    let nout = g.rng.below(3);
    for k in 0..nout {
        let d = g.rng.range(0, cfg.max_depth as u64) as u32;
        let w = g.rng.range(1, cfg.max_bv_width as u64) as u32;
        let e = if g.rng.chance(1, 5) && !state_syms.is_empty() { *g.rng.pick(&state_syms) } else { g.bv(ctx, w, d) };
        sys.add_output(ctx, format!("{prefix}out{k}{sfx}").into(), e);
    }
    // names for a few inner nodes
    let roots = all_roots(&sys);
    let inner: Vec<ExprRef> = r2::post_order(ctx, &roots).into_iter().filter(|e| !ctx[*e].is_symbol() && !ctx[*e].is_bv_lit()).collect();
    if !inner.is_empty() {
        let n = g.rng.below(4);
        for k in 0..n {
            let e = *g.rng.pick(&inner);
            if sys.names[e].is_none() {
                let name = format!("{prefix}n{k}{sfx}");
                sys.names[e] = Some(ctx.string(name.clone().into()));
                named.push((name, e));
            }
        }
    }
    GenSys { sys, named }
}

/// number of distinct structural features a system shows (used to prefer feature-rich systems where every
/// system is expensive to judge: changes that need a conjunction of shapes are then met more often)
pub fn feature_score(ctx: &Context, sys: &TransitionSystem) -> u32 {
    let input_set: Vec<ExprRef> = sys.inputs.clone();
    let state_set: Vec<ExprRef> = sys.states.iter().map(|s| s.symbol).collect();
    let reads = |e: ExprRef, set: &[ExprRef]| r2::symbols_of(ctx, &[e]).iter().any(|x| set.contains(x));
    let init_nodes: Vec<ExprRef> = r2::post_order(ctx, &sys.states.iter().filter_map(|s| s.init).collect::<Vec<_>>());
    let next_nodes: Vec<ExprRef> = r2::post_order(ctx, &sys.states.iter().filter_map(|s| s.next).collect::<Vec<_>>());
    let compound = |e: &ExprRef| !ctx[*e].is_symbol() && !ctx[*e].is_bv_lit();
    let f = [
        sys.states.iter().any(|s| s.init.is_some() && s.init == s.next && compound(&s.init.unwrap())),
        sys.states.iter().any(|s| s.next.map(|n| n != s.symbol && ctx[n].is_symbol()).unwrap_or(false)),
        sys.states.iter().any(|s| s.next == Some(s.symbol)),
        sys.states.iter().any(|s| s.next.is_none()),
        sys.states.iter().any(|s| s.init.map(|i| reads(i, &input_set)).unwrap_or(false)),
        sys.states.iter().any(|s| s.init.map(|i| reads(i, &state_set)).unwrap_or(false)),
        sys.states.iter().any(|s| matches!(super::expr::s_type(ctx, s.symbol), patronus::expr::Type::Array(_))),
        !sys.constraints.is_empty(),
        sys.bad_states.len() >= 2,
        init_nodes.iter().any(|n| compound(n) && next_nodes.contains(n)),
        sys.bad_states.iter().any(|b| ctx[*b].is_symbol()),
        sys.states.iter().any(|s| s.init.is_none()),
        sys.states.iter().any(|s| s.init.map(|i| ctx[i].is_symbol()).unwrap_or(false)),
    ];
    f.iter().filter(|x| **x).count() as u32
}

/// the most feature-rich of `tries` generated systems
pub fn gen_rich_system(rng: &mut Rng, ctx: &mut Context, cfg: &SysCfg, tries: u32) -> GenSys {
    let mut best: Option<(u32, GenSys)> = None;
    for t in 0..tries.max(1) {
        let gs = gen_system(rng, ctx, cfg, &format!("r{t}_"));
        let sc = feature_score(ctx, &gs.sys);
        if best.as_ref().map(|b| sc > b.0).unwrap_or(true) {
            best = Some((sc, gs));
        }
    }
    best.unwrap().1
}

/// all root expressions of a system (init, next, outputs, bads, constraints)
pub fn all_roots(sys: &TransitionSystem) -> Vec<ExprRef> {
    let mut v = vec![];
    for s in &sys.states {
        v.extend(s.init);
        v.extend(s.next);
    }
    v.extend(sys.outputs.iter().map(|o| o.expr));
    v.extend(sys.bad_states.iter().copied());
    v.extend(sys.constraints.iter().copied());
    v
}

pub fn describe(ctx: &Context, sys: &TransitionSystem) -> String {
    let mut s = String::new();
    for i in &sys.inputs {
        s.push_str(&format!("input {}\n", r2::render(ctx, *i)));
    }
    for st in &sys.states {
        s.push_str(&format!(
            "state {} init={} next={}\n",
            r2::render(ctx, st.symbol),
            st.init.map(|e| r2::render(ctx, e)).unwrap_or("-".into()),
            st.next.map(|e| r2::render(ctx, e)).unwrap_or("-".into())
        ));
    }
    for o in &sys.outputs {
        s.push_str(&format!("output {} = {}\n", ctx[o.name], r2::render(ctx, o.expr)));
    }
    for c in &sys.constraints {
        s.push_str(&format!("constraint {}\n", r2::render(ctx, *c)));
    }
    for b in &sys.bad_states {
        s.push_str(&format!("bad {}\n", r2::render(ctx, *b)));
    }
    s
}

//! G1 systematic small scope: all terms of depth <= 2 over small widths (enumerated, not sampled)

use crate::refsem::bv::Bv;
use crate::refsem::expr_eval::baa_from_bv;
use num_bigint::BigUint;
use patronus::expr::{Context, ExprRef, Type, TypeCheck};
use std::collections::BTreeMap;

#[derive(Clone, Copy, Debug, PartialEq, Eq)]
pub enum UOp {
    Not,
    Neg,
    Zext(u32),
    Sext(u32),
    Slice(u32, u32),
}

#[derive(Clone, Copy, Debug, PartialEq, Eq)]
pub enum BOp {
    And,
    Or,
    Xor,
    Add,
    Sub,
    Mul,
    Shl,
    Lshr,
    Ashr,
    Udiv,
    Sdiv,
    Smod,
    Srem,
    Urem,
    Eq,
    Ugt,
    Sgt,
    Ugte,
    Sgte,
    Implies,
    Concat,
}

pub const SAME_WIDTH_BOPS: &[BOp] = &[
    BOp::And, BOp::Or, BOp::Xor, BOp::Add, BOp::Sub, BOp::Mul, BOp::Shl, BOp::Lshr, BOp::Ashr, BOp::Udiv, BOp::Sdiv,
    BOp::Smod, BOp::Srem, BOp::Urem, BOp::Eq, BOp::Ugt, BOp::Sgt, BOp::Ugte, BOp::Sgte,
];

#[derive(Clone, Copy, Debug)]
pub enum Recipe {
    Term(ExprRef),
    Un(UOp, ExprRef),
    Bin(BOp, ExprRef, ExprRef),
    Ite(ExprRef, ExprRef, ExprRef),
}

pub fn width_of(ctx: &Context, e: ExprRef) -> u32 {
    match ctx[e].get_type(ctx) {
        Type::BV(w) => w,
        Type::Array(_) => panic!("sysenum: arrays not part of the systematic scope"),
    }
}

pub fn build_un(ctx: &mut Context, op: UOp, x: ExprRef) -> ExprRef {
    match op {
        UOp::Not => ctx.not(x),
        UOp::Neg => ctx.negate(x),
        UOp::Zext(by) => ctx.zero_extend(x, by),
        UOp::Sext(by) => ctx.sign_extend(x, by),
        UOp::Slice(hi, lo) => ctx.slice(x, hi, lo),
    }
}

pub fn build_bin(ctx: &mut Context, op: BOp, x: ExprRef, y: ExprRef) -> ExprRef {
    match op {
        BOp::And => ctx.and(x, y),
        BOp::Or => ctx.or(x, y),
        BOp::Xor => ctx.xor(x, y),
        BOp::Add => ctx.add(x, y),
        BOp::Sub => ctx.sub(x, y),
        BOp::Mul => ctx.mul(x, y),
        BOp::Shl => ctx.shift_left(x, y),
        BOp::Lshr => ctx.shift_right(x, y),
        BOp::Ashr => ctx.arithmetic_shift_right(x, y),
        BOp::Udiv => ctx.div(x, y),
        BOp::Sdiv => ctx.signed_div(x, y),
        BOp::Smod => ctx.signed_mod(x, y),
        BOp::Srem => ctx.signed_remainder(x, y),
        BOp::Urem => ctx.remainder(x, y),
        BOp::Eq => ctx.equal(x, y),
        BOp::Ugt => ctx.greater(x, y),
        BOp::Sgt => ctx.greater_signed(x, y),
        BOp::Ugte => ctx.greater_or_equal(x, y),
        BOp::Sgte => ctx.greater_or_equal_signed(x, y),
        BOp::Implies => ctx.implies(x, y),
        BOp::Concat => ctx.concat(x, y),
    }
}

pub fn build(ctx: &mut Context, r: Recipe) -> ExprRef {
    match r {
        Recipe::Term(e) => e,
        Recipe::Un(op, x) => build_un(ctx, op, x),
        Recipe::Bin(op, x, y) => build_bin(ctx, op, x, y),
        Recipe::Ite(c, x, y) => ctx.ite(c, x, y),
    }
}

fn unary_ops(w: u32) -> Vec<UOp> {
    let mut v = vec![UOp::Not, UOp::Neg, UOp::Zext(1), UOp::Zext(2), UOp::Sext(1), UOp::Sext(2)];
    for hi in 0..w {
        for lo in 0..=hi {
            if !(lo == 0 && hi + 1 == w) {
                v.push(UOp::Slice(hi, lo));
            }
        }
    }
    v
}

pub struct Scope {
    pub leaves: BTreeMap<u32, Vec<ExprRef>>,
    pub depth1: Vec<ExprRef>,
    pub recipes: Vec<Recipe>,
}

/// all leaves, all depth-1 terms (built in `ctx`) and the recipes of all depth-2 terms
pub fn scope(ctx: &mut Context, widths: &[u32]) -> Scope {
    let mut leaves: BTreeMap<u32, Vec<ExprRef>> = Default::default();
    for &w in widths {
        let mut l = vec![ctx.bv_symbol(&format!("a{w}"), w), ctx.bv_symbol(&format!("b{w}"), w)];
        let mut vals: Vec<u64> = vec![0, 1, (1u64 << w) - 1];
        if w == 2 {
            vals.push(2);
        }
        if w >= 3 {
            vals.push(5 % (1 << w));
            vals.push(1 << (w - 1));
        }
        vals.sort();
        vals.dedup();
        for v in vals {
            l.push(ctx.bv_lit(&baa_from_bv(&Bv::new(w, BigUint::from(v)))));
        }
        leaves.insert(w, l);
    }
    let all_leaves: Vec<ExprRef> = leaves.values().flatten().copied().collect();
    // depth 1
    let mut d1: Vec<ExprRef> = vec![];
    let mut seen: rustc_hash::FxHashSet<ExprRef> = Default::default();
    for r in combos(ctx, &all_leaves, &all_leaves, &leaves, true) {
        let e = build(ctx, r);
        if seen.insert(e) && !all_leaves.contains(&e) {
            d1.push(e);
        }
    }
    // depth 2: unary(d1), bin(d1, leaf), bin(leaf, d1), ite with one depth-1 operand
    let mut recipes: Vec<Recipe> = all_leaves.iter().map(|e| Recipe::Term(*e)).collect();
    recipes.extend(d1.iter().map(|e| Recipe::Term(*e)));
    recipes.extend(combos(ctx, &d1, &all_leaves, &leaves, false));
    Scope { leaves, depth1: d1, recipes }
}

/// recipes combining `xs` (in every operand position once) with `leaves` in the other positions
fn combos(
    ctx: &Context,
    xs: &[ExprRef],
    leaves: &[ExprRef],
    by_width: &BTreeMap<u32, Vec<ExprRef>>,
    xs_are_leaves: bool,
) -> Vec<Recipe> {
    let mut out = vec![];
    let one_bit_leaves: Vec<ExprRef> = by_width.get(&1).cloned().unwrap_or_default();
    for &x in xs {
        let w = width_of(ctx, x);
        for op in unary_ops(w) {
            out.push(Recipe::Un(op, x));
        }
        for &l in leaves {
            let lw = width_of(ctx, l);
            if lw == w {
                for &op in SAME_WIDTH_BOPS {
                    out.push(Recipe::Bin(op, x, l));
                    if !xs_are_leaves {
                        out.push(Recipe::Bin(op, l, x));
                    }
                }
                if w == 1 {
                    out.push(Recipe::Bin(BOp::Implies, x, l));
                    if !xs_are_leaves {
                        out.push(Recipe::Bin(BOp::Implies, l, x));
                    }
                }
                // ite with x as a branch
                for &c in one_bit_leaves.iter() {
                    out.push(Recipe::Ite(c, x, l));
                    if !xs_are_leaves {
                        out.push(Recipe::Ite(c, l, x));
                    }
                }
            }
            out.push(Recipe::Bin(BOp::Concat, x, l));
            if !xs_are_leaves {
                out.push(Recipe::Bin(BOp::Concat, l, x));
            }
        }
        if w == 1 && !xs_are_leaves {
            // ite with x as the condition
            for ls in by_width.values() {
                for &a in ls {
                    for &b in ls {
                        out.push(Recipe::Ite(x, a, b));
                    }
                }
            }
        }
    }
    out
}

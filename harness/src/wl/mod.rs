pub mod expr;
pub mod sys;
pub mod sysenum;

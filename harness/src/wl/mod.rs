pub mod expr;
pub mod sysenum;

pub mod btor2gen;
pub mod expr;
pub mod sys;
pub mod sysenum;

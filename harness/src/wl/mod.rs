pub mod expr;

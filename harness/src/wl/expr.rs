//! G1: expression DAG generator (random rule-directed mode + systematic small scope)

use crate::refsem::bv::{ArrV, Bv, Val, mask, pow2};
use crate::refsem::expr_eval::{Env, baa_from_bv};
use crate::util::Rng;
use num_bigint::BigUint;
use num_traits::{One, Zero};
use patronus::expr::{Context, ExprRef, Type};
use std::collections::BTreeMap;

#[derive(Clone, Debug)]
pub struct GenCfg {
    pub max_depth: u32,
    pub divrem: bool,
    pub arrays: bool,
    /// maximal bit-vector width ever produced
    pub max_width: u32,
    /// allow multiplication wider than 128 bits (baa: todo!())
    pub wide_mul: bool,
    pub max_index_width: u32,
    pub max_data_width: u32,
    /// probability (percent) to reuse an existing sub-term
    pub share_pct: u64,
    /// restrict symbol widths so that total symbol bits stay small (exhaustive evaluation)
    pub small: bool,
    /// never create symbols: leaves are drawn from the pre-registered symbols (adapted in width) or literals
    pub fixed_symbols: bool,
    /// generate array equality nodes
    pub array_eq: bool,
    /// generate constant arrays (btor2 cannot express them outside init)
    pub array_const: bool,
}

impl Default for GenCfg {
    fn default() -> Self {
        GenCfg {
            max_depth: 4,
            divrem: true,
            arrays: true,
            max_width: 129,
            wide_mul: true,
            max_index_width: 5,
            max_data_width: 65,
            share_pct: 25,
            small: false,
            fixed_symbols: false,
            array_eq: true,
            array_const: true,
        }
    }
}

pub struct ExprGen<'a> {
    pub rng: &'a mut Rng,
    pub cfg: GenCfg,
    pub bv_syms: BTreeMap<u32, Vec<ExprRef>>,
    pub arr_syms: BTreeMap<(u32, u32), Vec<ExprRef>>,
    pool: BTreeMap<u32, Vec<ExprRef>>,
    pub sym_prefix: String,
}

pub const WIDTH_CLASSES: &[(u32, u32)] = &[(1, 1), (2, 8), (31, 33), (63, 65), (127, 129)];

pub fn width_class(w: u32) -> &'static str {
    match w {
        1 => "1",
        2..=8 => "2-8",
        9..=30 => "9-30",
        31..=33 => "31-33",
        34..=62 => "34-62",
        63..=65 => "63-65",
        66..=126 => "66-126",
        127..=129 => "127-129",
        _ => ">129",
    }
}

/// a literal value of a given width drawn from the shapes named in the properties
pub fn lit_shape(rng: &mut Rng, w: u32) -> BigUint {
    let m = mask(w);
    let v = match rng.below(20) {
        0 | 1 => BigUint::zero(),
        2 => BigUint::one(),
        3 | 4 => m.clone(),
        5 => pow2(w - 1),                      // msb only
        6 => pow2(w - 1) - BigUint::one(),     // max positive
        7 => pow2(rng.below(w as u64) as u32), // one-hot
        8 => mask(rng.range(1, w as u64) as u32), // low mask
        9 => {
            let k = rng.range(1, w as u64) as u32; // high mask
            mask(k) << ((w - k) as usize)
        }
        10 => {
            // middle mask
            let lo = rng.below(w as u64) as u32;
            let len = rng.range(1, (w - lo) as u64) as u32;
            mask(len) << (lo as usize)
        }
        11 => BigUint::from(w - 1),
        12 => BigUint::from(w),
        13 => BigUint::from(w + 1),
        14 => BigUint::one() << 32usize,
        15 => (BigUint::one() << 32usize) + BigUint::one(),
        16 => BigUint::one() << 64usize,
        17 => BigUint::from(rng.below(4)),
        _ => rng.big(w),
    };
    v & m
}

impl<'a> ExprGen<'a> {
    pub fn new(rng: &'a mut Rng, cfg: GenCfg) -> Self {
        ExprGen { rng, cfg, bv_syms: Default::default(), arr_syms: Default::default(), pool: Default::default(), sym_prefix: String::new() }
    }

    pub fn pick_width(&mut self) -> u32 {
        let w = if self.cfg.small {
            *self.rng.pick(&[1u32, 1, 2, 2, 3, 3, 4, 5])
        } else {
            match self.rng.below(16) {
                0..=2 => 1,
                3..=7 => self.rng.range(2, 8) as u32,
                8 | 9 => self.rng.range(31, 33) as u32,
                10..=12 => self.rng.range(63, 65) as u32,
                13 | 14 => self.rng.range(127, 129) as u32,
                _ => self.rng.range(9, 130) as u32,
            }
        };
        w.min(self.cfg.max_width)
    }

    pub fn symbol(&mut self, ctx: &mut Context, w: u32) -> ExprRef {
        if self.cfg.fixed_symbols {
            return self.fixed_leaf(ctx, w);
        }
        let n_per = if self.cfg.small { 2 } else { 3 };
        let prefix = self.sym_prefix.clone();
        let v = self.bv_syms.entry(w).or_default();
        if v.len() < n_per && (v.is_empty() || self.rng.chance(1, 2)) {
            let name = format!("{}{}{}", prefix, ["a", "b", "c"][v.len()], w);
            let s = ctx.bv_symbol(&name, w);
            v.push(s);
            s
        } else {
            *self.rng.pick(v)
        }
    }

    pub fn array_symbol(&mut self, ctx: &mut Context, iw: u32, dw: u32) -> ExprRef {
        if self.cfg.fixed_symbols {
            if let Some(v) = self.arr_syms.get(&(iw, dw)) {
                if !v.is_empty() {
                    return *self.rng.pick(v);
                }
            }
            let d = self.fixed_leaf(ctx, dw);
            return ctx.array_const(d, iw);
        }
        let prefix = self.sym_prefix.clone();
        let v = self.arr_syms.entry((iw, dw)).or_default();
        if v.len() < 2 && (v.is_empty() || self.rng.chance(1, 2)) {
            let name = format!("{}m{}_{}_{}", prefix, ["x", "y"][v.len()], iw, dw);
            let s = ctx.array_symbol(&name, iw, dw);
            v.push(s);
            s
        } else {
            *self.rng.pick(v)
        }
    }

    pub fn literal(&mut self, ctx: &mut Context, w: u32) -> ExprRef {
        let v = lit_shape(self.rng, w);
        ctx.bv_lit(&baa_from_bv(&Bv::new(w, v)))
    }

    fn leaf(&mut self, ctx: &mut Context, w: u32) -> ExprRef {
        if self.cfg.fixed_symbols {
            return self.fixed_leaf(ctx, w);
        }
        if self.rng.chance(2, 5) { self.literal(ctx, w) } else { self.symbol(ctx, w) }
    }

    pub fn register_symbol(&mut self, ctx: &Context, s: ExprRef) {
        match s_type(ctx, s) {
            Type::BV(w) => self.bv_syms.entry(w).or_default().push(s),
            Type::Array(a) => self.arr_syms.entry((a.index_width, a.data_width)).or_default().push(s),
        }
    }

    pub fn clear_symbols(&mut self) {
        self.bv_syms.clear();
        self.arr_syms.clear();
        self.pool.clear();
    }

    fn fixed_leaf(&mut self, ctx: &mut Context, w: u32) -> ExprRef {
        let all: Vec<(u32, ExprRef)> = self.bv_syms.iter().flat_map(|(w, v)| v.iter().map(move |s| (*w, *s))).collect();
        if all.is_empty() || self.rng.chance(1, 4) {
            // array reads are another way to reach a symbol
            if !self.arr_syms.is_empty() && self.rng.chance(1, 3) {
                let keys: Vec<(u32, u32)> = self.arr_syms.keys().copied().collect();
                let (iw, dw) = *self.rng.pick(&keys);
                let a = *self.rng.pick(&self.arr_syms[&(iw, dw)]);
                let idx = if all.is_empty() { self.literal(ctx, iw) } else { self.fixed_leaf(ctx, iw) };
                let r = ctx.array_read(a, idx);
                return self.adapt(ctx, r, dw, w);
            }
            return self.literal(ctx, w);
        }
        // prefer an exact width match
        let exact: Vec<ExprRef> = all.iter().filter(|x| x.0 == w).map(|x| x.1).collect();
        if !exact.is_empty() && self.rng.chance(3, 4) {
            return *self.rng.pick(&exact);
        }
        let (ws, s) = *self.rng.pick(&all);
        self.adapt(ctx, s, ws, w)
    }

    /// change the width of `e` from `from` to `to` bits by slicing or extending
    fn adapt(&mut self, ctx: &mut Context, e: ExprRef, from: u32, to: u32) -> ExprRef {
        if from == to {
            e
        } else if from > to {
            let lo = self.rng.below((from - to) as u64 + 1) as u32;
            ctx.slice(e, lo + to - 1, lo)
        } else if self.rng.flip() {
            ctx.zero_extend(e, to - from)
        } else {
            ctx.sign_extend(e, to - from)
        }
    }

    fn remember(&mut self, w: u32, e: ExprRef) -> ExprRef {
        let p = self.pool.entry(w).or_default();
        if p.len() < 12 {
            p.push(e);
        } else {
            let i = self.rng.usize(12);
            p[i] = e;
        }
        e
    }

    /// generate a bit-vector expression of width `w`
    pub fn bv(&mut self, ctx: &mut Context, w: u32, depth: u32) -> ExprRef {
        debug_assert!(w >= 1);
        if depth == 0 {
            return self.leaf(ctx, w);
        }
        if self.rng.below(100) < self.cfg.share_pct {
            if let Some(p) = self.pool.get(&w) {
                if !p.is_empty() {
                    return *self.rng.pick(p);
                }
            }
        }
        if self.rng.chance(1, 8) {
            return self.leaf(ctx, w);
        }
        let d = depth - 1;
        let e = loop {
            let choice = self.rng.below(if w == 1 { 26 } else { 18 });
            match choice {
                0 => {
                    let x = self.bv(ctx, w, d);
                    break ctx.not(x);
                }
                1 => {
                    let x = self.bv(ctx, w, d);
                    break ctx.negate(x);
                }
                2..=5 => {
                    let x = self.bv(ctx, w, d);
                    let y = self.bv(ctx, w, d);
                    break match self.rng.below(6) {
                        0 => ctx.and(x, y),
                        1 => ctx.or(x, y),
                        2 => ctx.xor(x, y),
                        3 => ctx.add(x, y),
                        4 => ctx.sub(x, y),
                        _ => {
                            if w > 128 && !self.cfg.wide_mul {
                                ctx.add(x, y)
                            } else {
                                ctx.mul(x, y)
                            }
                        }
                    };
                }
                6 | 7 => {
                    // shifts: the amount is often a literal with interesting magnitude
                    let x = self.bv(ctx, w, d);
                    let y = if self.rng.chance(2, 3) { self.shift_amount(ctx, w) } else { self.bv(ctx, w, d) };
                    break match self.rng.below(3) {
                        0 => ctx.shift_left(x, y),
                        1 => ctx.shift_right(x, y),
                        _ => ctx.arithmetic_shift_right(x, y),
                    };
                }
                8 => {
                    if !self.cfg.divrem {
                        continue;
                    }
                    let x = self.bv(ctx, w, d);
                    let y = self.bv(ctx, w, d);
                    break match self.rng.below(5) {
                        0 => ctx.div(x, y),
                        1 => ctx.signed_div(x, y),
                        2 => ctx.signed_mod(x, y),
                        3 => ctx.signed_remainder(x, y),
                        _ => ctx.remainder(x, y),
                    };
                }
                9 | 10 => {
                    let c = self.bv(ctx, 1, d);
                    let x = self.bv(ctx, w, d);
                    let y = self.bv(ctx, w, d);
                    break ctx.ite(c, x, y);
                }
                11 | 12 => {
                    if w < 2 {
                        continue;
                    }
                    let by = self.rng.range(1, (w - 1) as u64) as u32;
                    let x = self.bv(ctx, w - by, d);
                    break if self.rng.flip() { ctx.zero_extend(x, by) } else { ctx.sign_extend(x, by) };
                }
                13 | 14 => {
                    // slice out of something wider
                    let extra = match self.rng.below(4) {
                        0 => 1,
                        1 => self.rng.range(1, 4) as u32,
                        2 => self.rng.range(1, 64) as u32,
                        _ => self.rng.range(1, 8) as u32,
                    };
                    let cw = (w + extra).min(self.cfg.max_width.max(w + 1));
                    let extra = cw - w;
                    let lo = match self.rng.below(3) {
                        0 => 0,
                        1 => extra,
                        _ => self.rng.below(extra as u64 + 1) as u32,
                    };
                    let x = self.bv(ctx, cw, d);
                    break ctx.slice(x, lo + w - 1, lo);
                }
                15 | 16 => {
                    if w < 2 {
                        continue;
                    }
                    let hi_w = self.rng.range(1, (w - 1) as u64) as u32;
                    let x = self.bv(ctx, hi_w, d);
                    let y = self.bv(ctx, w - hi_w, d);
                    break ctx.concat(x, y);
                }
                17 => {
                    if !self.cfg.arrays || w > self.cfg.max_data_width {
                        continue;
                    }
                    let iw = if self.cfg.array_const {
                        self.rng.range(1, self.cfg.max_index_width as u64) as u32
                    } else {
                        let ks: Vec<u32> = self.arr_syms.keys().filter(|k| k.1 == w).map(|k| k.0).collect();
                        if ks.is_empty() {
                            continue;
                        }
                        *self.rng.pick(&ks)
                    };
                    let a = self.array(ctx, iw, w, d);
                    let i = self.bv(ctx, iw, d);
                    break ctx.array_read(a, i);
                }
                // ---- only for w == 1
                18..=22 => {
                    let cw = self.pick_width();
                    let x = self.bv(ctx, cw, d);
                    let y = if self.rng.chance(1, 6) { x } else { self.bv(ctx, cw, d) };
                    break match self.rng.below(6) {
                        0 | 1 => ctx.equal(x, y),
                        2 => ctx.greater(x, y),
                        3 => ctx.greater_signed(x, y),
                        4 => ctx.greater_or_equal(x, y),
                        _ => ctx.greater_or_equal_signed(x, y),
                    };
                }
                23 | 24 => {
                    let x = self.bv(ctx, 1, d);
                    let y = self.bv(ctx, 1, d);
                    break ctx.implies(x, y);
                }
                _ => {
                    if !self.cfg.arrays || !self.cfg.array_eq {
                        continue;
                    }
                    let (iw, dw) = if self.cfg.array_const {
                        (self.rng.range(1, self.cfg.max_index_width.min(3) as u64) as u32, if self.cfg.small { self.rng.range(1, 2) as u32 } else { self.pick_width().min(self.cfg.max_data_width) })
                    } else {
                        let ks: Vec<(u32, u32)> = self.arr_syms.keys().copied().collect();
                        if ks.is_empty() {
                            continue;
                        }
                        *self.rng.pick(&ks)
                    };
                    let a = self.array(ctx, iw, dw, d);
                    let b = self.array(ctx, iw, dw, d);
                    break ctx.equal(a, b);
                }
            }
        };
        self.remember(w, e)
    }

    fn shift_amount(&mut self, ctx: &mut Context, w: u32) -> ExprRef {
        let m = mask(w);
        let v = match self.rng.below(10) {
            0 => BigUint::zero(),
            1 => BigUint::one(),
            2 => BigUint::from(w - 1),
            3 => BigUint::from(w),
            4 => BigUint::from(w + 1),
            5 => BigUint::one() << 32usize,
            6 => (BigUint::one() << 32usize) + BigUint::from(self.rng.below(w as u64 + 2)),
            7 => BigUint::one() << 64usize,
            8 => m.clone(),
            _ => BigUint::from(self.rng.below(w as u64 + 2)),
        } & m;
        ctx.bv_lit(&baa_from_bv(&Bv::new(w, v)))
    }

    pub fn array(&mut self, ctx: &mut Context, iw: u32, dw: u32, depth: u32) -> ExprRef {
        if !self.cfg.array_const {
            let have = self.arr_syms.get(&(iw, dw)).map(|v| !v.is_empty()).unwrap_or(false);
            if !have {
                // cannot be expressed without a constant array; callers only ask for existing array types
                let d = self.leaf(ctx, dw);
                return ctx.array_const(d, iw);
            }
            if depth == 0 || self.rng.chance(1, 4) {
                return *self.rng.pick(&self.arr_syms[&(iw, dw)]);
            }
            let d = depth - 1;
            return match self.rng.below(5) {
                0..=2 => {
                    let a = self.array(ctx, iw, dw, d);
                    let i = self.bv(ctx, iw, d);
                    let x = self.bv(ctx, dw, d);
                    ctx.array_store(a, i, x)
                }
                _ => {
                    let c = self.bv(ctx, 1, d);
                    let a = self.array(ctx, iw, dw, d);
                    let b = self.array(ctx, iw, dw, d);
                    ctx.ite(c, a, b)
                }
            };
        }
        if depth == 0 || self.rng.chance(1, 4) {
            return if self.rng.chance(1, 3) {
                let d = self.leaf(ctx, dw);
                ctx.array_const(d, iw)
            } else {
                self.array_symbol(ctx, iw, dw)
            };
        }
        let d = depth - 1;
        match self.rng.below(6) {
            0 => {
                let x = self.bv(ctx, dw, d);
                ctx.array_const(x, iw)
            }
            1..=3 => {
                let a = self.array(ctx, iw, dw, d);
                let i = self.bv(ctx, iw, d);
                let x = self.bv(ctx, dw, d);
                ctx.array_store(a, i, x)
            }
            _ => {
                let c = self.bv(ctx, 1, d);
                let a = self.array(ctx, iw, dw, d);
                let b = self.array(ctx, iw, dw, d);
                ctx.ite(c, a, b)
            }
        }
    }

    /// rule-shaped templates: one family per left-hand side in simplify.rs, at boundary widths
    pub fn template(&mut self, ctx: &mut Context, depth: u32) -> (ExprRef, &'static str) {
        let d = depth.saturating_sub(1);
        let fam = self.rng.below(22);
        match fam {
            0 => {
                // slice of slice
                let w = self.pick_width().max(3);
                let x = self.bv(ctx, w, d);
                let lo1 = self.rng.below(w as u64 - 1) as u32;
                let hi1 = self.rng.range(lo1 as u64 + 1, w as u64 - 1) as u32;
                let w1 = hi1 - lo1 + 1;
                let s1 = ctx.slice(x, hi1, lo1);
                let lo2 = self.rng.below(w1 as u64) as u32;
                let hi2 = self.rng.range(lo2 as u64, w1 as u64 - 1) as u32;
                (ctx.slice(s1, hi2, lo2), "slice(slice)")
            }
            1 => {
                // slice of concat around the split point
                let wa = self.pick_width();
                let wb = self.pick_width();
                let a = self.bv(ctx, wa, d);
                let b = self.bv(ctx, wb, d);
                let c = ctx.concat(a, b);
                let w = wa + wb;
                let (hi, lo) = self.bounds_near(w, wb);
                (ctx.slice(c, hi, lo), "slice(concat)")
            }
            2 => {
                // slice of sign extension around e_width
                let we = self.pick_width();
                let by = *self.rng.pick(&[1u32, 2, 3, 31, 32, 33, 63, 64, 65]);
                let x = self.bv(ctx, we, d);
                let s = ctx.sign_extend(x, by);
                let (hi, lo) = self.bounds_near(we + by, we);
                (ctx.slice(s, hi, lo), "slice(sext)")
            }
            3 => {
                let w = self.pick_width().max(2);
                let (hi, lo) = self.bounds_near(w, w / 2);
                let c = self.bv(ctx, 1, d);
                let x = self.bv(ctx, w, d);
                let y = self.bv(ctx, w, d);
                let i = ctx.ite(c, x, y);
                (ctx.slice(i, hi, lo), "slice(ite)")
            }
            4 => {
                let w = self.pick_width().max(2);
                let (hi, lo) = self.bounds_near(w, w / 2);
                let x = self.bv(ctx, w, d);
                let inner = match self.rng.below(2) {
                    0 => ctx.not(x),
                    _ => ctx.negate(x),
                };
                (ctx.slice(inner, hi, lo), "slice(not/neg)")
            }
            5 => {
                let w = self.pick_width().max(2);
                let (hi, lo) = self.bounds_near(w, w / 2);
                let lo = if self.rng.flip() { 0 } else { lo };
                let x = self.bv(ctx, w, d);
                let y = self.bv(ctx, w, d);
                let inner = match self.rng.below(6) {
                    0 => ctx.and(x, y),
                    1 => ctx.or(x, y),
                    2 => ctx.xor(x, y),
                    3 => ctx.add(x, y),
                    4 => ctx.sub(x, y),
                    _ => {
                        if w > 128 && !self.cfg.wide_mul { ctx.sub(x, y) } else { ctx.mul(x, y) }
                    }
                };
                (ctx.slice(inner, hi.max(lo), lo), "slice(binop)")
            }
            6 => {
                // shift by literal
                let w = self.pick_width();
                let x = self.bv(ctx, w, d);
                let y = self.shift_amount(ctx, w);
                let e = match self.rng.below(3) {
                    0 => ctx.shift_left(x, y),
                    1 => ctx.shift_right(x, y),
                    _ => ctx.arithmetic_shift_right(x, y),
                };
                (e, "shift(lit)")
            }
            7 => {
                let w = self.pick_width();
                let x = self.bv(ctx, w, d);
                let l = match self.rng.below(4) {
                    0 => ctx.zero(w),
                    1 => ctx.ones(w),
                    _ => self.literal(ctx, w),
                };
                let e = if self.rng.flip() { ctx.greater_or_equal(x, l) } else { ctx.greater_or_equal(l, x) };
                (e, "ugte(lit)")
            }
            8 => {
                let wa = self.pick_width();
                let wb = self.pick_width();
                let a = self.bv(ctx, wa, d);
                let b = self.bv(ctx, wb, d);
                let c = ctx.concat(a, b);
                let o = self.bv(ctx, wa + wb, d);
                let e = if self.rng.flip() { ctx.equal(c, o) } else { ctx.equal(o, c) };
                (e, "eq(concat)")
            }
            9 => {
                // mask-and against concat / plain
                let wa = self.pick_width();
                let wb = self.pick_width();
                let x = if self.rng.flip() {
                    let a = self.bv(ctx, wa, d);
                    let b = self.bv(ctx, wb, d);
                    ctx.concat(a, b)
                } else {
                    self.bv(ctx, wa + wb, d)
                };
                let m = self.literal(ctx, wa + wb);
                let e = if self.rng.flip() { ctx.and(x, m) } else { ctx.and(m, x) };
                (e, "and(mask)")
            }
            10 => {
                let w = self.pick_width();
                let x = self.bv(ctx, w, d);
                let b1 = self.rng.range(1, 66) as u32;
                let b2 = self.rng.range(1, 66) as u32;
                let s1 = ctx.sign_extend(x, b1);
                (ctx.sign_extend(s1, b2), "sext(sext)")
            }
            11 => {
                let w = self.pick_width().max(2);
                let w = if w > 128 && !self.cfg.wide_mul { 128 } else { w };
                let x = self.bv(ctx, w, d);
                let k = self.rng.below(w as u64) as u32;
                let p = ctx.bv_lit(&baa_from_bv(&Bv::new(w, pow2(k))));
                let e = if self.rng.flip() { ctx.mul(x, p) } else { ctx.mul(p, x) };
                (e, "mul(pow2)")
            }
            12 => {
                let x = self.bv(ctx, 1, d);
                let y = self.bv(ctx, 1, d);
                let e = if self.rng.flip() { ctx.add(x, y) } else { ctx.mul(x, y) };
                (e, "add/mul(1bit)")
            }
            13 => {
                // ite with boolean constants / equal branches
                let c = self.bv(ctx, 1, d);
                let w = if self.rng.flip() { 1 } else { self.pick_width() };
                let x = if w == 1 && self.rng.flip() { self.literal(ctx, 1) } else { self.bv(ctx, w, d) };
                let y = if self.rng.chance(1, 5) { x } else if w == 1 && self.rng.flip() { self.literal(ctx, 1) } else { self.bv(ctx, w, d) };
                let c = if self.rng.chance(1, 5) { self.literal(ctx, 1) } else { c };
                (ctx.ite(c, x, y), "ite(bool)")
            }
            14 => {
                // a op !a, !a op !b, a op a
                let w = self.pick_width();
                let a = self.bv(ctx, w, d);
                let b = if self.rng.flip() { a } else { self.bv(ctx, w, d) };
                let na = ctx.not(a);
                let nb = ctx.not(b);
                let (l, r) = match self.rng.below(4) {
                    0 => (a, na),
                    1 => (na, a),
                    2 => (na, nb),
                    _ => (a, b),
                };
                let e = match self.rng.below(3) {
                    0 => ctx.and(l, r),
                    1 => ctx.or(l, r),
                    _ => ctx.xor(l, r),
                };
                (e, "bitop(not)")
            }
            15 => {
                // concat chains with literals and adjacent slices
                let w = self.pick_width().max(4);
                let x = self.bv(ctx, w, d);
                let mid = self.rng.range(1, w as u64 - 1) as u32;
                let off = if self.rng.chance(1, 4) { 1 } else { 0 };
                let hi = ctx.slice(x, w - 1, mid);
                let lo = ctx.slice(x, mid - 1 - off.min(mid - 1), 0);
                let e = ctx.concat(hi, lo);
                (e, "concat(slices)")
            }
            16 => {
                let wa = self.rng.range(1, 66) as u32;
                let wb = self.rng.range(1, 66) as u32;
                let wc = self.rng.range(1, 66) as u32;
                let a = self.literal(ctx, wa);
                let b = if self.rng.flip() { self.literal(ctx, wb) } else { self.bv(ctx, wb, d) };
                let c = self.bv(ctx, wc, d);
                let e = if self.rng.flip() {
                    let bc = ctx.concat(b, c);
                    ctx.concat(a, bc)
                } else {
                    let ab = ctx.concat(a, b);
                    ctx.concat(ab, c)
                };
                (e, "concat(lits)")
            }
            17 => {
                // constant folding of every foldable binary op at boundary widths
                let w = self.pick_width();
                let w = if w > 128 && !self.cfg.wide_mul && self.rng.flip() { 128 } else { w };
                let a = self.literal(ctx, w);
                let b = if self.rng.chance(1, 4) { a } else { self.literal(ctx, w) };
                let e = match self.rng.below(10) {
                    0 => ctx.and(a, b),
                    1 => ctx.or(a, b),
                    2 => ctx.xor(a, b),
                    3 => ctx.add(a, b),
                    4 => {
                        if w > 128 && !self.cfg.wide_mul { ctx.add(a, b) } else { ctx.mul(a, b) }
                    }
                    5 => ctx.shift_left(a, b),
                    6 => ctx.shift_right(a, b),
                    7 => ctx.arithmetic_shift_right(a, b),
                    8 => ctx.greater_or_equal(a, b),
                    _ => ctx.equal(a, b),
                };
                (e, "fold(lit,lit)")
            }
            18 => {
                let w = self.pick_width();
                let a = self.literal(ctx, w);
                let e = match self.rng.below(5) {
                    0 => ctx.not(a),
                    1 => {
                        let by = self.rng.range(1, 66) as u32;
                        ctx.zero_extend(a, by)
                    }
                    2 => {
                        let by = self.rng.range(1, 66) as u32;
                        ctx.sign_extend(a, by)
                    }
                    3 => {
                        let lo = self.rng.below(w as u64) as u32;
                        let hi = self.rng.range(lo as u64, w as u64 - 1) as u32;
                        ctx.slice(a, hi, lo)
                    }
                    _ => {
                        let bw = self.rng.range(1, 66) as u32;
                        let b = self.literal(ctx, bw);
                        ctx.concat(a, b)
                    }
                };
                (e, "fold(unary lit)")
            }
            19 => {
                // equality with boolean literal / same operands
                let x = self.bv(ctx, 1, d);
                let l = self.literal(ctx, 1);
                let e = match self.rng.below(3) {
                    0 => ctx.equal(x, l),
                    1 => ctx.equal(l, x),
                    _ => ctx.equal(x, x),
                };
                (e, "eq(bool lit)")
            }
            20 => {
                let w = self.pick_width();
                let x = self.bv(ctx, w, d);
                let by = *self.rng.pick(&[1u32, 2, 31, 32, 33, 63, 64, 65]);
                let z = ctx.zero_extend(x, by);
                let (hi, lo) = self.bounds_near(w + by, w);
                (ctx.slice(z, hi, lo), "slice(zext)")
            }
            _ => {
                // add with zero / literal
                let w = self.pick_width().max(2);
                let x = self.bv(ctx, w, d);
                let l = if self.rng.flip() { ctx.zero(w) } else { self.literal(ctx, w) };
                let e = if self.rng.flip() { ctx.add(x, l) } else { ctx.add(l, x) };
                (e, "add(lit)")
            }
        }
    }

    /// slice bounds clustered around a pivot bit position
    fn bounds_near(&mut self, w: u32, pivot: u32) -> (u32, u32) {
        let near = |rng: &mut Rng| -> u32 {
            let delta = rng.below(3) as i64 - 1;
            ((pivot as i64 + delta).max(0) as u32).min(w - 1)
        };
        let (a, b) = match self.rng.below(4) {
            0 => (near(self.rng), 0),
            1 => (w - 1, near(self.rng)),
            2 => (near(self.rng), near(self.rng)),
            _ => (self.rng.below(w as u64) as u32, self.rng.below(w as u64) as u32),
        };
        (a.max(b), a.min(b))
    }

    /// top-level entry: either a template or a generic term of random width
    pub fn top(&mut self, ctx: &mut Context) -> (ExprRef, &'static str) {
        let depth = self.rng.range(1, self.cfg.max_depth as u64) as u32;
        if self.rng.chance(1, 2) {
            self.template(ctx, depth)
        } else if self.cfg.arrays && self.rng.chance(1, 12) {
            let iw = self.rng.range(1, self.cfg.max_index_width as u64) as u32;
            let dw = self.pick_width().min(self.cfg.max_data_width);
            (self.array(ctx, iw, dw, depth), "generic-array")
        } else {
            let w = self.pick_width();
            (self.bv(ctx, w, depth), "generic")
        }
    }
}

// ------------------------------------------------------------------------------------------------
// assignments

/// corner-biased value for a symbol
pub fn corner_value(rng: &mut Rng, w: u32) -> BigUint {
    lit_shape(rng, w)
}

pub fn random_array(rng: &mut Rng, iw: u32, dw: u32) -> ArrV {
    let mut a = ArrV { iw, dw, default: lit_shape(rng, dw), map: Default::default() };
    let dense = iw <= 4 && rng.flip();
    let n = if dense { 1u64 << iw } else { rng.below(5) };
    for k in 0..n {
        let idx = if dense { BigUint::from(k) } else { lit_shape(rng, iw) };
        a.map.insert(idx, lit_shape(rng, dw));
    }
    a
}

/// assignment of all symbols with corner-biased and correlated values
pub fn random_env(rng: &mut Rng, ctx: &Context, syms: &[ExprRef]) -> Env {
    let mut env = Env::default();
    let mut by_width: BTreeMap<u32, Vec<BigUint>> = Default::default();
    for s in syms {
        match ctx[*s].clone() {
            patronus::expr::Expr::BVSymbol { width, .. } => {
                let prev = by_width.entry(width).or_default();
                let v = if !prev.is_empty() && rng.chance(1, 3) {
                    // correlated with another symbol of the same width
                    let p = rng.pick(prev).clone();
                    let m = mask(width);
                    match rng.below(4) {
                        0 => p,
                        1 => (p + BigUint::one()) & &m,
                        2 => (p + &m) & &m, // p - 1
                        _ => &m ^ p,        // complement
                    }
                } else {
                    corner_value(rng, width)
                };
                prev.push(v.clone());
                env.insert(*s, Val::B(Bv::new(width, v)));
            }
            patronus::expr::Expr::ArraySymbol { index_width, data_width, .. } => {
                env.insert(*s, Val::A(random_array(rng, index_width, data_width)));
            }
            _ => unreachable!(),
        }
    }
    env
}

/// total number of bits over all symbols, `None` if there is an array symbol with too many cells
pub fn symbol_bits(ctx: &Context, syms: &[ExprRef]) -> Option<u64> {
    let mut bits = 0u64;
    for s in syms {
        match s_type(ctx, *s) {
            Type::BV(w) => bits += w as u64,
            Type::Array(a) => {
                if a.index_width > 4 {
                    return None;
                }
                bits += (1u64 << a.index_width) * a.data_width as u64;
            }
        }
    }
    Some(bits)
}

pub fn s_type(ctx: &Context, s: ExprRef) -> Type {
    match &ctx[s] {
        patronus::expr::Expr::BVSymbol { width, .. } => Type::BV(*width),
        patronus::expr::Expr::ArraySymbol { index_width, data_width, .. } => {
            Type::Array(patronus::expr::ArrayType { index_width: *index_width, data_width: *data_width })
        }
        _ => panic!("not a symbol"),
    }
}

/// the k-th assignment of an exhaustive enumeration (all symbols, arrays cell by cell)
pub fn nth_env(ctx: &Context, syms: &[ExprRef], mut k: u64) -> Env {
    let mut env = Env::default();
    for s in syms {
        match s_type(ctx, *s) {
            Type::BV(w) => {
                let v = k & ((1u64 << w) - 1);
                k >>= w;
                env.insert(*s, Val::B(Bv::from_u64(w, v)));
            }
            Type::Array(a) => {
                let mut arr = ArrV { iw: a.index_width, dw: a.data_width, default: BigUint::zero(), map: Default::default() };
                for i in 0..(1u64 << a.index_width) {
                    let v = k & ((1u64 << a.data_width) - 1);
                    k >>= a.data_width;
                    arr.map.insert(BigUint::from(i), BigUint::from(v));
                }
                env.insert(*s, Val::A(arr));
            }
        }
    }
    env
}

/// the assignments used to judge equivalence: exhaustive when few bits, else `n` corner/correlated samples
pub fn judging_envs(rng: &mut Rng, ctx: &Context, syms: &[ExprRef], max_bits: u64, n: usize) -> (Vec<Env>, bool) {
    match symbol_bits(ctx, syms) {
        Some(b) if b <= max_bits => ((0..(1u64 << b)).map(|k| nth_env(ctx, syms, k)).collect(), true),
        _ => ((0..n).map(|_| random_env(rng, ctx, syms)).collect(), false),
    }
}

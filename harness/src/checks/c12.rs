//! C12 Expression references are canonical and stable

use crate::refsem::bv::{Bv, mask};
use crate::refsem::expr_eval::{self as r2, baa_from_bv, bv_from_baa};
use crate::runner::*;
use crate::util::{self, Rng};
use crate::wl::expr::lit_shape;
use baa::{BitVecOps, BitVecValue};
use num_bigint::BigUint;
use patronus::expr::{ArrayType, Context, Expr, ExprRef, StringRef, Type, TypeCheck};
use rustc_hash::FxHashMap;
use serde_json::json;

pub struct C12;

#[derive(Clone, Debug, PartialEq, Eq, Hash)]
pub enum Key {
    Sym(String, Type),
    Lit(u32, BigUint),
    Op(&'static str, Vec<ExprRef>, Vec<u32>),
}

fn show_key(k: &Key) -> String {
    match k {
        Key::Sym(n, t) => format!("symbol {n:?} : {t}"),
        Key::Lit(w, v) => format!("literal {w}'x{}", v.to_str_radix(16)),
        Key::Op(o, kids, p) => format!("{o}{p:?}({kids:?})"),
    }
}

/// decode what a reference denotes *now* into a structural key (reads only through public look-ups)
fn key_of(ctx: &Context, r: ExprRef) -> Key {
    let e = &ctx[r];
    match e {
        Expr::BVSymbol { name, width } => Key::Sym(ctx[*name].clone(), Type::BV(*width)),
        Expr::ArraySymbol { name, index_width, data_width } => {
            Key::Sym(ctx[*name].clone(), Type::Array(ArrayType { index_width: *index_width, data_width: *data_width }))
        }
        Expr::BVLiteral(v) => {
            let b = bv_from_baa(&v.get(ctx));
            Key::Lit(b.w, b.v)
        }
        other => {
            let params = match other {
                Expr::BVZeroExt { by, width, .. } | Expr::BVSignExt { by, width, .. } => vec![*by, *width],
                Expr::BVSlice { hi, lo, .. } => vec![*hi, *lo],
                Expr::BVNot(_, w) | Expr::BVNegate(_, w) => vec![*w],
                Expr::BVGreaterSigned(_, _, w)
                | Expr::BVGreaterEqualSigned(_, _, w)
                | Expr::BVConcat(_, _, w)
                | Expr::BVAnd(_, _, w)
                | Expr::BVOr(_, _, w)
                | Expr::BVXor(_, _, w)
                | Expr::BVShiftLeft(_, _, w)
                | Expr::BVArithmeticShiftRight(_, _, w)
                | Expr::BVShiftRight(_, _, w)
                | Expr::BVAdd(_, _, w)
                | Expr::BVMul(_, _, w)
                | Expr::BVSignedDiv(_, _, w)
                | Expr::BVUnsignedDiv(_, _, w)
                | Expr::BVSignedMod(_, _, w)
                | Expr::BVSignedRem(_, _, w)
                | Expr::BVUnsignedRem(_, _, w)
                | Expr::BVSub(_, _, w) => vec![*w],
                Expr::BVArrayRead { width, .. } => vec![*width],
                Expr::ArrayConstant { index_width, data_width, .. } => vec![*index_width, *data_width],
                _ => vec![],
            };
            Key::Op(r2::op_name(other), r2::children(ctx, r), params)
        }
    }
}

/// the call through `Context`, or (one time in three) the same call through the `Builder` wrapper
macro_rules! via {
    ($ctx:ident, $rng:ident, $sh:ident, $m:ident ( $($a:expr),* )) => {
        if $rng.chance(1, 3) {
            $sh.count("calls_through_the_builder_wrapper", 1);
            $ctx.build(|b| b.$m($($a),*))
        } else {
            $ctx.$m($($a),*)
        }
    };
}

struct Shadow {
    by_key: FxHashMap<Key, ExprRef>,
    by_ref: FxHashMap<ExprRef, (Key, Type)>,
    bv: Vec<(ExprRef, u32)>,
    arr: Vec<(ExprRef, u32, u32)>,
    strings: FxHashMap<String, StringRef>,
    string_refs: FxHashMap<StringRef, String>,
    t: ExprRef,
    f: ExprRef,
}

impl Shadow {
    fn clone_me(&self) -> Shadow {
        Shadow {
            by_key: self.by_key.clone(),
            by_ref: self.by_ref.clone(),
            bv: self.bv.clone(),
            arr: self.arr.clone(),
            strings: self.strings.clone(),
            string_refs: self.string_refs.clone(),
            t: self.t,
            f: self.f,
        }
    }
}

struct Fail {
    sig: String,
    detail: String,
}

impl C12 {
    /// record the result of one builder call
    fn observe(&self, sd: &mut Shadow, ctx: &Context, key: Key, ty: Type, r: ExprRef, call: &str) -> Result<(), Fail> {
        if let Some(prev) = sd.by_key.get(&key) {
            if *prev != r {
                return Err(Fail {
                    sig: format!("C12|same-key-different-ref|{}", key_kind(&key)),
                    detail: format!("call {call}: building {} again returned {:?}, first time it was {:?}", show_key(&key), r, prev),
                });
            }
        } else {
            if let Some((other, _)) = sd.by_ref.get(&r) {
                return Err(Fail {
                    sig: format!("C12|different-key-same-ref|{}", key_kind(&key)),
                    detail: format!("call {call}: {} returned {:?} which already denotes {}", show_key(&key), r, show_key(other)),
                });
            }
            sd.by_key.insert(key.clone(), r);
            sd.by_ref.insert(r, (key.clone(), ty));
            match ty {
                Type::BV(w) => sd.bv.push((r, w)),
                Type::Array(a) => sd.arr.push((r, a.index_width, a.data_width)),
            }
        }
        // the look-up right now must denote what was asked for
        let now = key_of(ctx, r);
        if now != key {
            return Err(Fail {
                sig: format!("C12|lookup-differs-from-request|{}", key_kind(&key)),
                detail: format!("call {call}: asked for {}, ctx[{:?}] is {}", show_key(&key), r, show_key(&now)),
            });
        }
        if r.get_type(ctx) != ty {
            return Err(Fail { sig: format!("C12|type-differs|{}", key_kind(&key)), detail: format!("call {call}: {:?} has type {} expected {}", r, r.get_type(ctx), ty) });
        }
        Ok(())
    }

    fn audit(&self, sd: &Shadow, ctx: &Context, when: &str) -> Result<u64, Fail> {
        let mut n = 0;
        for (r, (key, ty)) in sd.by_ref.iter() {
            n += 1;
            let now = key_of(ctx, *r);
            if now != *key {
                return Err(Fail {
                    sig: format!("C12|reference-changed-meaning|{}", key_kind(key)),
                    detail: format!("{when}: {:?} was {} and now denotes {}", r, show_key(key), show_key(&now)),
                });
            }
            if r.get_type(ctx) != *ty {
                return Err(Fail { sig: "C12|reference-changed-type".into(), detail: format!("{when}: {:?} {} type now {}", r, show_key(key), r.get_type(ctx)) });
            }
            if let Key::Sym(name, _) = key {
                if ctx.get_symbol_name(*r) != Some(name.as_str()) {
                    return Err(Fail { sig: "C12|symbol-name-changed".into(), detail: format!("{when}: {:?} name now {:?} expected {name}", r, ctx.get_symbol_name(*r)) });
                }
            }
        }
        for (sr, s) in sd.string_refs.iter() {
            n += 1;
            if ctx[*sr] != *s {
                return Err(Fail { sig: "C12|string-changed".into(), detail: format!("{when}: {:?} was {s:?} now {:?}", sr, ctx[*sr]) });
            }
        }
        if ctx.get_true() != sd.t || ctx.get_false() != sd.f {
            return Err(Fail { sig: "C12|true-false-moved".into(), detail: format!("{when}: get_true/get_false changed") });
        }
        Ok(n)
    }

    /// a literal value computed through some baa route; returns (route, discriminator, value)
    fn lit_route(&self, rng: &mut Rng, w: u32) -> (&'static str, String, BitVecValue, Bv) {
        let a = Bv::new(w, lit_shape(rng, w));
        let b = Bv::new(w, lit_shape(rng, w));
        let (ba, bb) = (baa_from_bv(&a), baa_from_bv(&b));
        match rng.below(14) {
            0 => ("from_bit_str", "-".into(), ba, a),
            1 => {
                if w <= 64 {
                    ("from_u64", "-".into(), BitVecValue::from_u64(a.to_u64().unwrap(), w), a)
                } else {
                    let lo = Bv::new(w, &a.v & mask(64));
                    ("from_u64", "-".into(), BitVecValue::from_u64(lo.to_u64().unwrap(), w), lo)
                }
            }
            2 => {
                let lo = Bv::new(w, &a.v & mask(128.min(w)));
                let mut bytes = lo.v.to_bytes_le();
                bytes.resize(16, 0);
                ("from_u128", "-".into(), BitVecValue::from_u128(u128::from_le_bytes(bytes.try_into().unwrap()), w), lo)
            }
            3 => ("add", "-".into(), ba.add(&bb), a.add(&b)),
            4 => ("sub", "-".into(), ba.sub(&bb), a.sub(&b)),
            5 => {
                let amt = Bv::new(w, BigUint::from(*rng.pick(&[0u32, 1, 63, 64, 65, 127, 128, w - 1, w]) % (w + 1)));
                let disc = match amt.to_u64() {
                    Some(n) if n < w as u64 && n >= 64 && n % 64 == 0 => "amount-multiple-of-64",
                    _ => "other",
                };
                ("shl", disc.into(), ba.shift_left(&baa_from_bv(&amt)), a.shl(&amt))
            }
            6 => {
                let amt = Bv::new(w, BigUint::from(*rng.pick(&[0u32, 1, 63, 64, 65, 127, 128, w - 1, w]) % (w + 1)));
                ("lshr", "-".into(), ba.shift_right(&baa_from_bv(&amt)), a.lshr(&amt))
            }
            7 => {
                let amt = Bv::new(w, BigUint::from(*rng.pick(&[0u32, 1, 63, 64, 65, 127, 128, w - 1, w]) % (w + 1)));
                ("ashr", "-".into(), ba.arithmetic_shift_right(&baa_from_bv(&amt)), a.ashr(&amt))
            }
            8 => {
                if w < 2 {
                    return ("from_bit_str", "-".into(), ba, a);
                }
                let hw = rng.range(1, (w - 1) as u64) as u32;
                let hi = Bv::new(hw, lit_shape(rng, hw));
                let lo = Bv::new(w - hw, lit_shape(rng, w - hw));
                ("concat", "-".into(), baa_from_bv(&hi).concat(&baa_from_bv(&lo)), hi.concat(&lo))
            }
            9 => {
                let extra = rng.range(1, 70) as u32;
                let wide = Bv::new(w + extra, lit_shape(rng, w + extra));
                let lo = rng.below(extra as u64 + 1) as u32;
                ("slice", "-".into(), baa_from_bv(&wide).slice(lo + w - 1, lo), wide.extract(lo + w - 1, lo))
            }
            10 => {
                if w < 2 {
                    return ("from_bit_str", "-".into(), ba, a);
                }
                let by = rng.range(1, (w - 1) as u64) as u32;
                let small = Bv::new(w - by, lit_shape(rng, w - by));
                if rng.flip() {
                    ("sign_extend", "-".into(), baa_from_bv(&small).sign_extend(by), small.sext(by))
                } else {
                    ("zero_extend", "-".into(), baa_from_bv(&small).zero_extend(by), small.zext(by))
                }
            }
            11 => ("not", "-".into(), ba.not(), a.not()),
            12 => ("negate", "-".into(), ba.negate(), a.neg()),
            _ => {
                if w > 128 {
                    ("xor", "-".into(), ba.xor(&bb), a.xor(&b))
                } else {
                    ("mul", "-".into(), ba.mul(&bb), a.mul(&b))
                }
            }
        }
    }

    fn history(&self, sh: &mut Shard, rng: &mut Rng, ncalls: usize, nstrings: usize) -> Result<(), Fail> {
        let mut ctx = Context::default();
        let mut sd = Shadow {
            by_key: Default::default(),
            by_ref: Default::default(),
            bv: vec![],
            arr: vec![],
            strings: Default::default(),
            string_refs: Default::default(),
            t: ctx.get_true(),
            f: ctx.get_false(),
        };
        // true / false are the 1-bit literals
        self.observe(&mut sd, &ctx, Key::Lit(1, 0u32.into()), Type::BV(1), ctx.get_false(), "get_false")?;
        self.observe(&mut sd, &ctx, Key::Lit(1, 1u32.into()), Type::BV(1), ctx.get_true(), "get_true")?;
        let mut clone_at = if rng.chance(1, 3) { Some(rng.usize(ncalls)) } else { None };
        let mut pending_clone: Option<(Context, Shadow)> = None;
        let widths = [1u32, 1, 2, 3, 8, 31, 32, 33, 63, 64, 65, 100, 127, 128, 129, 200];
        let mut i = 0usize;
        while i < ncalls {
            i += 1;
            sh.count("builder_calls", 1);
            if Some(i) == clone_at {
                pending_clone = Some((ctx.clone(), sd.clone_me()));
                clone_at = None;
                sh.count("context_clones", 1);
            }
            if i % 1000 == 0 {
                let n = self.audit(&sd, &ctx, &format!("after {i} calls"))?;
                sh.count("lookups_audited", n);
            }
            let pick_bv = |rng: &mut Rng, sd: &Shadow, w: Option<u32>| -> Option<(ExprRef, u32)> {
                if sd.bv.is_empty() {
                    return None;
                }
                for _ in 0..8 {
                    let c = *rng.pick(&sd.bv);
                    if w.is_none() || w == Some(c.1) {
                        return Some(c);
                    }
                }
                None
            };
            let choice = rng.below(21);
            match choice {
                0 | 1 => {
                    // symbols: a small name space so that re-creation is frequent
                    let w = *rng.pick(&widths);
                    let name = format!("s{}", rng.below(40));
                    let r = if rng.flip() {
                        via!(ctx, rng, sh, bv_symbol(&name, w))
                    } else {
                        let sr = ctx.string(name.clone().into());
                        ctx.symbol(sr, Type::BV(w))
                    };
                    sh.hist("calls", "bv_symbol");
                    self.observe(&mut sd, &ctx, Key::Sym(name, Type::BV(w)), Type::BV(w), r, "bv_symbol")?;
                }
                2 => {
                    let iw = rng.range(1, 6) as u32;
                    let dw = *rng.pick(&widths);
                    let name = format!("s{}", rng.below(40));
                    let r = ctx.array_symbol(&name, iw, dw);
                    let ty = Type::Array(ArrayType { index_width: iw, data_width: dw });
                    sh.hist("calls", "array_symbol");
                    self.observe(&mut sd, &ctx, Key::Sym(name, ty), ty, r, "array_symbol")?;
                }
                3..=6 => {
                    // literals through different computations
                    let w = *rng.pick(&widths);
                    let (route, disc, val, want) = self.lit_route(rng, w);
                    sh.hist("literal_routes", route);
                    let r = match rng.below(6) {
                        0 if want.is_zero() => via!(ctx, rng, sh, zero(w)),
                        1 if want.v == BigUint::from(1u32) => via!(ctx, rng, sh, one(w)),
                        2 if want.v == mask(w) => via!(ctx, rng, sh, ones(w)),
                        3 if want.v.bits() <= 128 => {
                            let mut bytes = want.v.to_bytes_le();
                            bytes.resize(16, 0);
                            via!(ctx, rng, sh, bit_vec_val(u128::from_le_bytes(bytes.try_into().unwrap()), w))
                        }
                        _ => ctx.bv_lit(&val),
                    };
                    // the same number entered in canonical form must give the same reference (checked at
                    // once, so that a failure is attributed to the route that produced the odd value)
                    let rc = ctx.bv_lit(&baa_from_bv(&want));
                    sh.count("builder_calls", 1);
                    if rc != r {
                        sh.violation(
                            format!("C12|same-key-different-ref|Lit|route={route}|{disc}"),
                            format!("bv_lit of the {w}-bit value {} computed by baa `{route}` returned {:?}; the same number parsed from a bit string returned {:?}; words of the computed value {:x?}", want.show(), r, rc, val.words()),
                            json!({}),
                        );
                        // the odd literal is left out of the shadow map; the history goes on
                        continue;
                    }
                    if let Err(mut f) = self.observe(&mut sd, &ctx, Key::Lit(w, want.v.clone()), Type::BV(w), r, &format!("bv_lit(value computed by {route})")) {
                        f.sig = format!("{}|route={route}|{disc}", f.sig);
                        f.detail = format!("{}\nvalue words {:x?} (width {w})", f.detail, val.words());
                        return Err(f);
                    }
                }
                7 => {
                    // strings
                    let s = if nstrings > 0 && rng.chance(9, 10) { format!("str{}", rng.below(nstrings as u64)) } else { format!("n{}", rng.below(50)) };
                    let sr = ctx.string(s.clone().into());
                    sh.hist("calls", "string");
                    if let Some(prev) = sd.strings.get(&s) {
                        if *prev != sr {
                            return Err(Fail { sig: "C12|string-same-different-ref".into(), detail: format!("string {s:?} interned as {:?} then {:?}", prev, sr) });
                        }
                    } else {
                        if let Some(o) = sd.string_refs.get(&sr) {
                            return Err(Fail { sig: "C12|string-different-same-ref".into(), detail: format!("strings {o:?} and {s:?} share {:?}", sr) });
                        }
                        sd.strings.insert(s.clone(), sr);
                        sd.string_refs.insert(sr, s.clone());
                    }
                    if ctx[sr] != s {
                        return Err(Fail { sig: "C12|string-lookup".into(), detail: format!("ctx[{:?}] = {:?} expected {s:?}", sr, ctx[sr]) });
                    }
                }
                8 | 9 => {
                    let Some((x, w)) = pick_bv(rng, &sd, None) else { continue };
                    let (name, r, params, ty): (&'static str, ExprRef, Vec<u32>, Type) = match rng.below(6) {
                        0 => ("not", via!(ctx, rng, sh, not(x)), vec![w], Type::BV(w)),
                        1 => ("neg", via!(ctx, rng, sh, negate(x)), vec![w], Type::BV(w)),
                        2 => {
                            let by = rng.below(4) as u32 * rng.range(1, 40) as u32;
                            let r = match rng.below(4) {
                                // the generic helper builds the same expression
                                0 => {
                                    sh.count("calls_through_extend", 1);
                                    ctx.extend(x, by, false)
                                }
                                1 => {
                                    sh.count("calls_through_extend", 1);
                                    ctx.build(|mut b| b.extend(x, by, false))
                                }
                                _ => via!(ctx, rng, sh, zero_extend(x, by)),
                            };
                            ("zext", r, vec![by, w + by], Type::BV(w + by))
                        }
                        3 => {
                            let by = rng.below(4) as u32 * rng.range(1, 40) as u32;
                            let r = match rng.below(4) {
                                0 => {
                                    sh.count("calls_through_extend", 1);
                                    ctx.extend(x, by, true)
                                }
                                1 => {
                                    sh.count("calls_through_extend", 1);
                                    ctx.build(|mut b| b.extend(x, by, true))
                                }
                                _ => via!(ctx, rng, sh, sign_extend(x, by)),
                            };
                            ("sext", r, vec![by, w + by], Type::BV(w + by))
                        }
                        4 => {
                            let iw = rng.range(1, 6) as u32;
                            ("arrconst", via!(ctx, rng, sh, array_const(x, iw)), vec![iw, w], Type::Array(ArrayType { index_width: iw, data_width: w }))
                        }
                        _ => {
                            let (hi, lo) = if rng.chance(1, 4) {
                                (w - 1, 0)
                            } else {
                                let lo = rng.below(w as u64) as u32;
                                (rng.range(lo as u64, w as u64 - 1) as u32, lo)
                            };
                            ("slice", via!(ctx, rng, sh, slice(x, hi, lo)), vec![hi, lo], Type::BV(hi - lo + 1))
                        }
                    };
                    sh.hist("calls", name);
                    // documented normalisations: extension by 0 and full-width slice return the operand
                    let identity = match name {
                        "zext" | "sext" => params[0] == 0,
                        "slice" => params[1] == 0 && params[0] + 1 == w,
                        _ => false,
                    };
                    if identity {
                        sh.count("normalised_identity_calls", 1);
                        if r != x {
                            return Err(Fail { sig: format!("C12|normalisation-lost|{name}"), detail: format!("{name}{params:?} of {:?} (width {w}) returned {:?} instead of the operand", x, r) });
                        }
                    } else {
                        self.observe(&mut sd, &ctx, Key::Op(name, vec![x], params), ty, r, name)?;
                    }
                }
                10..=15 => {
                    let Some((x, w)) = pick_bv(rng, &sd, None) else { continue };
                    let Some((y, _)) = pick_bv(rng, &sd, Some(w)) else { continue };
                    let y = if rng.chance(1, 10) { x } else { y };
                    let k = rng.below(21);
                    let (name, r, params, ty): (&'static str, ExprRef, Vec<u32>, Type) = match k {
                        0 => ("eq", via!(ctx, rng, sh, equal(x, y)), vec![], Type::BV(1)),
                        1 => ("ugt", via!(ctx, rng, sh, greater(x, y)), vec![], Type::BV(1)),
                        2 => ("sgt", via!(ctx, rng, sh, greater_signed(x, y)), vec![w], Type::BV(1)),
                        3 => ("ugte", via!(ctx, rng, sh, greater_or_equal(x, y)), vec![], Type::BV(1)),
                        4 => ("sgte", via!(ctx, rng, sh, greater_or_equal_signed(x, y)), vec![w], Type::BV(1)),
                        5 => ("and", via!(ctx, rng, sh, and(x, y)), vec![w], Type::BV(w)),
                        6 => ("or", via!(ctx, rng, sh, or(x, y)), vec![w], Type::BV(w)),
                        7 => ("xor", via!(ctx, rng, sh, xor(x, y)), vec![w], Type::BV(w)),
                        8 => ("shl", via!(ctx, rng, sh, shift_left(x, y)), vec![w], Type::BV(w)),
                        9 => ("ashr", via!(ctx, rng, sh, arithmetic_shift_right(x, y)), vec![w], Type::BV(w)),
                        10 => ("lshr", via!(ctx, rng, sh, shift_right(x, y)), vec![w], Type::BV(w)),
                        11 => ("add", via!(ctx, rng, sh, add(x, y)), vec![w], Type::BV(w)),
                        12 => ("sub", via!(ctx, rng, sh, sub(x, y)), vec![w], Type::BV(w)),
                        13 => ("mul", via!(ctx, rng, sh, mul(x, y)), vec![w], Type::BV(w)),
                        14 => ("udiv", via!(ctx, rng, sh, div(x, y)), vec![w], Type::BV(w)),
                        15 => ("sdiv", via!(ctx, rng, sh, signed_div(x, y)), vec![w], Type::BV(w)),
                        16 => ("smod", via!(ctx, rng, sh, signed_mod(x, y)), vec![w], Type::BV(w)),
                        17 => ("srem", via!(ctx, rng, sh, signed_remainder(x, y)), vec![w], Type::BV(w)),
                        18 => ("urem", via!(ctx, rng, sh, remainder(x, y)), vec![w], Type::BV(w)),
                        19 if w == 1 => ("implies", via!(ctx, rng, sh, implies(x, y)), vec![], Type::BV(1)),
                        _ => {
                            let Some((z, zw)) = pick_bv(rng, &sd, None) else { continue };
                            ("concat", via!(ctx, rng, sh, concat(x, z)), vec![w + zw], Type::BV(w + zw))
                        }
                    };
                    sh.hist("calls", name);
                    let kids = if name == "concat" {
                        // second operand was z
                        r2::children(&ctx, r)
                    } else {
                        vec![x, y]
                    };
                    if name == "concat" && kids[0] != x {
                        return Err(Fail { sig: "C12|lookup-differs-from-request|Op".into(), detail: "concat first operand differs".into() });
                    }
                    self.observe(&mut sd, &ctx, Key::Op(name, kids, params), ty, r, name)?;
                }
                16 => {
                    let Some((c, _)) = pick_bv(rng, &sd, Some(1)) else { continue };
                    if rng.flip() || sd.arr.is_empty() {
                        let Some((x, w)) = pick_bv(rng, &sd, None) else { continue };
                        let Some((y, _)) = pick_bv(rng, &sd, Some(w)) else { continue };
                        let r = via!(ctx, rng, sh, ite(c, x, y));
                        sh.hist("calls", "ite");
                        self.observe(&mut sd, &ctx, Key::Op("ite", vec![c, x, y], vec![]), Type::BV(w), r, "ite")?;
                    } else {
                        let (a, iw, dw) = *rng.pick(&sd.arr);
                        let cands: Vec<_> = sd.arr.iter().filter(|x| x.1 == iw && x.2 == dw).copied().collect();
                        let (b, _, _) = *rng.pick(&cands);
                        let r = via!(ctx, rng, sh, ite(c, a, b));
                        sh.hist("calls", "arrite");
                        self.observe(&mut sd, &ctx, Key::Op("arrite", vec![c, a, b], vec![]), Type::Array(ArrayType { index_width: iw, data_width: dw }), r, "array ite")?;
                    }
                }
                17 | 18 => {
                    if sd.arr.is_empty() {
                        continue;
                    }
                    let (a, iw, dw) = *rng.pick(&sd.arr);
                    let Some((i_, _)) = pick_bv(rng, &sd, Some(iw)) else { continue };
                    match rng.below(3) {
                        0 => {
                            let r = via!(ctx, rng, sh, array_read(a, i_));
                            sh.hist("calls", "read");
                            self.observe(&mut sd, &ctx, Key::Op("read", vec![a, i_], vec![dw]), Type::BV(dw), r, "array_read")?;
                        }
                        1 => {
                            let Some((d, _)) = pick_bv(rng, &sd, Some(dw)) else { continue };
                            let r = via!(ctx, rng, sh, array_store(a, i_, d));
                            sh.hist("calls", "store");
                            self.observe(&mut sd, &ctx, Key::Op("store", vec![a, i_, d], vec![]), Type::Array(ArrayType { index_width: iw, data_width: dw }), r, "array_store")?;
                        }
                        _ => {
                            let cands: Vec<_> = sd.arr.iter().filter(|x| x.1 == iw && x.2 == dw).copied().collect();
                            let (b, _, _) = *rng.pick(&cands);
                            let r = via!(ctx, rng, sh, equal(a, b));
                            sh.hist("calls", "arreq");
                            self.observe(&mut sd, &ctx, Key::Op("arreq", vec![a, b], vec![]), Type::BV(1), r, "array equal")?;
                        }
                    }
                }
                19 => {
                    // the substitution API (what the unrolling uses to make step copies) is a builder too: its
                    // result must be the reference the builder methods give for the substituted structure
                    if sd.bv.is_empty() {
                        continue;
                    }
                    let root = if !sd.arr.is_empty() && rng.chance(1, 4) { rng.pick(&sd.arr).0 } else { rng.pick(&sd.bv).0 };
                    let nodes = r2::post_order(&ctx, &[root]);
                    if nodes.len() < 2 || nodes.len() > 400 {
                        continue;
                    }
                    let target = *rng.pick(&nodes[..nodes.len() - 1]);
                    let tt = target.get_type(&ctx);
                    let cands: Vec<ExprRef> = match tt {
                        Type::BV(w) => sd.bv.iter().filter(|c| c.1 == w).map(|c| c.0).collect(),
                        Type::Array(a) => sd.arr.iter().filter(|c| c.1 == a.index_width && c.2 == a.data_width).map(|c| c.0).collect(),
                    };
                    if cands.is_empty() {
                        continue;
                    }
                    let repl = *rng.pick(&cands);
                    let got = match util::catch(|| patronus::expr::simple_transform_expr(&mut ctx, root, |_, e, _| if e == target { Some(repl) } else { None })) {
                        Ok(g) => g,
                        Err(p) => return Err(Fail { sig: format!("C12|transform-panic|{}", p.loc()), detail: format!("simple_transform_expr panicked at {}: {}", p.loc(), util::trunc(&p.msg, 200)) }),
                    };
                    sh.hist("calls", "simple_transform_expr");
                    let mut memo: FxHashMap<ExprRef, Option<ExprRef>> = Default::default();
                    let Some(want) = substitute(&mut ctx, root, target, repl, &mut memo) else { continue };
                    sh.count("substitutions_compared", 1);
                    if got != want {
                        return Err(Fail {
                            sig: format!("C12|same-key-different-ref|transform|{}", r2::op_name(&ctx[got])),
                            detail: format!("simple_transform_expr({:?}: {}, {:?} -> {:?}) returned {:?} = {}; building the substituted structure with the builder methods gives {:?} = {}", root, r2::render(&ctx, root), target, repl, got, show_key(&key_of(&ctx, got)), want, show_key(&key_of(&ctx, want))),
                        });
                    }
                }
                _ => {
                    // rebuild something that exists already, from its recorded key
                    if sd.by_ref.is_empty() {
                        continue;
                    }
                    let (r0, _) = if rng.flip() && !sd.bv.is_empty() { let c = *rng.pick(&sd.bv); (c.0, 0) } else if !sd.arr.is_empty() { let c = *rng.pick(&sd.arr); (c.0, 0) } else { continue };
                    let (key, _) = sd.by_ref[&r0].clone();
                    let rebuilt = rebuild(&mut ctx, &key);
                    sh.count("rebuilds_of_existing_nodes", 1);
                    if let Some(r) = rebuilt {
                        if r != r0 {
                            return Err(Fail {
                                sig: format!("C12|same-key-different-ref|{}", key_kind(&key)),
                                detail: format!("rebuilding {} after {} calls returned {:?}, the original reference is {:?}", show_key(&key), i, r, r0),
                            });
                        }
                    }
                }
            }
            // the clone continues independently for a while, then is audited and dropped
            if let Some((cctx, csd)) = pending_clone.as_mut() {
                if rng.chance(1, 3) {
                    let w = *rng.pick(&widths);
                    let name = format!("c{}", rng.below(1000));
                    let r = cctx.bv_symbol(&name, w);
                    self.observe(csd, cctx, Key::Sym(name, Type::BV(w)), Type::BV(w), r, "bv_symbol (clone)")?;
                    if let Some((x, xw)) = csd.bv.get(rng.usize(csd.bv.len())).copied() {
                        let r = cctx.not(x);
                        self.observe(csd, cctx, Key::Op("not", vec![x], vec![xw]), Type::BV(xw), r, "not (clone)")?;
                    }
                }
            }
        }
        let n = self.audit(&sd, &ctx, "at the end")?;
        sh.count("lookups_audited", n);
        if let Some((cctx, csd)) = pending_clone.as_ref() {
            let n = self.audit(csd, cctx, "clone at the end")?;
            sh.count("lookups_audited", n);
        }
        sh.count("distinct_refs", sd.by_ref.len() as u64);
        sh.count("distinct_strings", sd.strings.len() as u64);
        if sh.want_sample() {
            let some: Vec<String> = sd.by_ref.iter().take(5).map(|(r, (k, _))| format!("{:?} = {}", r, show_key(k))).collect();
            sh.sample(json!({"calls": ncalls, "distinct_refs": sd.by_ref.len(), "distinct_strings": sd.strings.len(), "some_refs": some}));
        }
        let hid = rng.next();
        for r in sd.by_ref.keys() {
            let i: usize = (*r).into();
            sh.distinct(util::mix(&[hid, i as u64]));
        }
        Ok(())
    }
}

fn key_kind(k: &Key) -> &'static str {
    match k {
        Key::Sym(..) => "Sym",
        Key::Lit(..) => "Lit",
        Key::Op(name, ..) => name,
    }
}

/// `root` with every occurrence of `target` replaced by `repl`, built bottom-up with the builder methods
fn substitute(ctx: &mut Context, root: ExprRef, target: ExprRef, repl: ExprRef, memo: &mut FxHashMap<ExprRef, Option<ExprRef>>) -> Option<ExprRef> {
    if root == target {
        return Some(repl);
    }
    if let Some(m) = memo.get(&root) {
        return *m;
    }
    let res = match key_of(ctx, root) {
        Key::Op(name, kids, params) => {
            let mut new_kids = vec![];
            let mut ok = true;
            for k in &kids {
                match substitute(ctx, *k, target, repl, memo) {
                    Some(n) => new_kids.push(n),
                    None => {
                        ok = false;
                        break;
                    }
                }
            }
            if !ok {
                None
            } else if new_kids == kids {
                Some(root)
            } else {
                rebuild(ctx, &Key::Op(name, new_kids, params))
            }
        }
        _ => Some(root),
    };
    memo.insert(root, res);
    res
}

fn rebuild(ctx: &mut Context, key: &Key) -> Option<ExprRef> {
    Some(match key {
        Key::Sym(name, Type::BV(w)) => ctx.bv_symbol(name, *w),
        Key::Sym(name, Type::Array(a)) => ctx.array_symbol(name, a.index_width, a.data_width),
        Key::Lit(w, v) => ctx.bv_lit(&baa_from_bv(&Bv::new(*w, v.clone()))),
        Key::Op(name, k, p) => match (*name, k.as_slice()) {
            ("not", [x]) => ctx.not(*x),
            ("neg", [x]) => ctx.negate(*x),
            ("zext", [x]) => ctx.zero_extend(*x, p[0]),
            ("sext", [x]) => ctx.sign_extend(*x, p[0]),
            ("slice", [x]) => ctx.slice(*x, p[0], p[1]),
            ("arrconst", [x]) => ctx.array_const(*x, p[0]),
            ("eq", [x, y]) | ("arreq", [x, y]) => ctx.equal(*x, *y),
            ("ugt", [x, y]) => ctx.greater(*x, *y),
            ("sgt", [x, y]) => ctx.greater_signed(*x, *y),
            ("ugte", [x, y]) => ctx.greater_or_equal(*x, *y),
            ("sgte", [x, y]) => ctx.greater_or_equal_signed(*x, *y),
            ("and", [x, y]) => ctx.and(*x, *y),
            ("or", [x, y]) => ctx.or(*x, *y),
            ("xor", [x, y]) => ctx.xor(*x, *y),
            ("shl", [x, y]) => ctx.shift_left(*x, *y),
            ("ashr", [x, y]) => ctx.arithmetic_shift_right(*x, *y),
            ("lshr", [x, y]) => ctx.shift_right(*x, *y),
            ("add", [x, y]) => ctx.add(*x, *y),
            ("sub", [x, y]) => ctx.sub(*x, *y),
            ("mul", [x, y]) => ctx.mul(*x, *y),
            ("udiv", [x, y]) => ctx.div(*x, *y),
            ("sdiv", [x, y]) => ctx.signed_div(*x, *y),
            ("smod", [x, y]) => ctx.signed_mod(*x, *y),
            ("srem", [x, y]) => ctx.signed_remainder(*x, *y),
            ("urem", [x, y]) => ctx.remainder(*x, *y),
            ("implies", [x, y]) => ctx.implies(*x, *y),
            ("concat", [x, y]) => ctx.concat(*x, *y),
            ("ite", [c, x, y]) | ("arrite", [c, x, y]) => ctx.ite(*c, *x, *y),
            ("read", [a, i]) => ctx.array_read(*a, *i),
            ("store", [a, i, d]) => ctx.array_store(*a, *i, *d),
            _ => return None,
        },
    })
}

impl Check for C12 {
    fn id(&self) -> &'static str {
        "C12"
    }
    fn work(&self, tier: Tier) -> Vec<WorkItem> {
        vec![
            WorkItem { mode: "directed", count: 2 },
            WorkItem { mode: "hist", count: tier.pick(1600, 40_000) },
            WorkItem { mode: "long", count: tier.pick(32, 320) },
        ]
    }
    fn evaluations_counter(&self) -> &'static str {
        "builder_calls"
    }
    fn rule(&self) -> String {
        "G6 builder-call histories: mode hist = 1000..20000 calls, mode long = 100000 calls with 70000 distinct strings; calls mix symbols (40 names x 16 widths, via bv_symbol and string+symbol), arrays, every operator builder (one call in three goes through the `Builder` wrapper of `Context::build` instead of `Context` itself), literals whose values are computed through 14 different baa routes (from_bit_str, from_u64/u128, add, sub, shl, lshr, ashr, concat, slice, sign/zero_extend, not, negate, mul) and entered via bv_lit/zero/one/ones/bit_vec_val, rebuilds of existing nodes from their recorded key, and a context clone that continues independently. Monitor: shadow structural map (same key => same ref, new key => fresh ref, normalisations return the operand), look-up of every earlier reference every 1000 calls and at the end. distinct_nontrivial = distinct (history, reference) pairs, i.e. structurally distinct nodes created and later re-checked (capped at 4M per shard).".into()
    }
    fn assumptions(&self) -> Vec<String> {
        vec!["literal keys are numeric (width, value); the value handed to bv_lit comes from baa computations on canonical inputs".into()]
    }
    fn miri_work(&self) -> Vec<WorkItem> {
        vec![WorkItem { mode: "miri", count: 48 }]
    }
    fn run_case(&self, sh: &mut Shard, case: &CaseId) {
        let mut rng = Rng::new(sh.case_seed());
        if case.mode == "miri" {
            // short histories with the structural oracle only (the interpreter is ~1000x slower)
            if let Err(f) = self.history(sh, &mut rng, 250, 0) {
                sh.violation(f.sig, f.detail, json!({}));
            }
            return;
        }
        if case.mode == "directed" {
            // witness of the known finding: shl by a multiple of 64 on a multi-word value
            let mut ctx = Context::default();
            let w = if case.n == 0 { 65 } else { 129 };
            let a = Bv::new(w, mask(w));
            let amt = Bv::new(w, BigUint::from(64u32));
            let v = baa_from_bv(&a).shift_left(&baa_from_bv(&amt));
            let want = a.shl(&amt);
            let r1 = ctx.bv_lit(&v);
            let r2_ = ctx.bv_lit(&baa_from_bv(&want));
            sh.count("builder_calls", 2);
            if r1 != r2_ {
                sh.violation(
                    "C12|same-key-different-ref|Lit|route=shl|amount-multiple-of-64",
                    format!("bv_lit of shl({}, 64) computed by baa returned {:?}, the same number from a bit string returned {:?}; words {:x?}", a.show(), r1, r2_, v.words()),
                    json!({}),
                );
            }
            return;
        }
        let (ncalls, nstrings) = if case.mode == "long" { (100_000, 70_000) } else { (rng.range(1000, 20_000) as usize, 0) };
        match self.history(sh, &mut rng, ncalls, nstrings) {
            Ok(()) => {}
            Err(f) => sh.violation(f.sig, f.detail, json!({})),
        }
    }
    fn finalize(&self, m: &mut Merged, tier: Tier) {
        m.floor("builder calls", m.c("builder_calls"), tier.pick(5_000_000, 100_000_000));
        m.floor("look-ups audited", m.c("lookups_audited"), tier.pick(10_000_000, 100_000_000));
        m.floor("literal routes exercised", m.hist_len("literal_routes") as u64, 14);
        m.floor("rebuilds of existing nodes", m.c("rebuilds_of_existing_nodes"), tier.pick(100_000, 1_000_000));
    }
}

//! C01 Simplification never changes meaning or type

use super::common::*;
use crate::refsem::bv::Val;
use crate::refsem::expr_eval::{self as r2, Env};
use crate::runner::*;
use crate::util::{self, Rng};
use crate::wl::expr::{ExprGen, GenCfg, judging_envs, width_class};
use crate::wl::sysenum;
use patronus::expr::{Context, DenseExprMetaData, ExprRef, Simplifier, SparseExprMap, simplify_single_expression};
use serde_json::json;
use std::cell::RefCell;
use std::rc::Rc;

pub struct C01;

#[derive(Clone, Debug)]
pub struct StepEvent {
    pub expr: ExprRef,
    pub children: Vec<ExprRef>,
    pub result: Option<ExprRef>,
}

pub type EventLog = Rc<RefCell<Vec<StepEvent>>>;

/// install the H2 observer; returns the shared event log
pub fn install_observer(max_events: usize) -> EventLog {
    let log: EventLog = Rc::new(RefCell::new(Vec::new()));
    let l2 = log.clone();
    patronus::verif::set_rewrite_observer(Some(Box::new(move |_ctx, _fp, expr, children, result| {
        let mut l = l2.borrow_mut();
        if l.len() >= max_events {
            drop(l);
            panic!("VERIF-STEP-LIMIT");
        }
        l.push(StepEvent { expr, children: children.to_vec(), result });
    })));
    // a chain of cache entries longer than this cannot be acyclic: the cache maps expressions of one
    // context to expressions of the same context, and no workload creates this many of them
    patronus::verif::set_link_observer(Some(Box::new(|links| {
        if links > CHAIN_LIMIT {
            panic!("VERIF-CHAIN-LIMIT");
        }
    })));
    log
}

pub const CHAIN_LIMIT: usize = 4_000_000;

pub fn remove_observer() {
    patronus::verif::set_rewrite_observer(None);
    patronus::verif::set_link_observer(None);
}

pub fn rule_signature(ctx: &Context, ev: &StepEvent) -> String {
    let kids: Vec<String> = ev.children.iter().map(|c| r2::shape(ctx, *c)).collect();
    let res = match ev.result {
        Some(r) => r2::shape(ctx, r),
        None => "-".into(),
    };
    format!("{}({})=>{}", r2::op_name(&ctx[ev.expr]), kids.join(","), res)
}

pub struct Judged {
    pub envs: usize,
    pub exhaustive: bool,
}

/// shared by C01/C11/C13: judge e vs s (end to end) and every rewrite step under the same assignments
pub fn judge_simplification(
    prop: &str,
    sh: &mut Shard,
    ctx: &mut Context,
    rng: &mut Rng,
    e: ExprRef,
    s: ExprRef,
    events: &[StepEvent],
    what: &str,
    max_bits: u64,
    nsamples: usize,
) -> Option<Judged> {
    // root causes first: a rewrite step that produces a literal whose words are not canonical
    if let Some((sig, detail)) = noncanonical_step(prop, ctx, events, e, what) {
        sh.violation(sig, detail, json!({"expr": r2::render(ctx, e)}));
        return None;
    }
    // types
    let te = match r2::deep_type_check(ctx, e) {
        Ok(t) => t,
        Err(m) => {
            sh.inconclusive(format!("generator produced an ill-typed term: {m}"));
            return None;
        }
    };
    match r2::deep_type_check(ctx, s) {
        Err(m) => {
            let sig = format!("{prop}|illtyped-result|{what}|{}", r2::op_name(&ctx[e]));
            sh.violation(sig, format!("input: {}\nresult: {}\nresult fails the deep type check: {m}", r2::render(ctx, e), r2::render(ctx, s)), json!({}));
            return None;
        }
        Ok(ts) => {
            if ts != te {
                let sig = format!("{prop}|type-changed|{what}|{}", r2::op_name(&ctx[e]));
                sh.violation(sig, format!("input: {} : {}\nresult: {} : {}", r2::render(ctx, e), type_str(te), r2::render(ctx, s), type_str(ts)), json!({}));
                return None;
            }
        }
    }
    let mut roots = vec![e, s];
    for ev in events {
        roots.extend(ev.children.iter().copied());
        if let Some(r) = ev.result {
            roots.push(r);
        }
    }
    let syms = r2::symbols_of(ctx, &roots);
    let (envs, exhaustive) = judging_envs(rng, ctx, &syms, max_bits, nsamples);
    let mut reported_step = false;
    for env in envs.iter() {
        let mut memo = Env::default();
        // per step (localises the fault to one rule)
        for ev in events {
            let Some(newe) = ev.result else { continue };
            let mut cv: Vec<Val> = Vec::with_capacity(ev.children.len());
            let mut ok = true;
            for c in &ev.children {
                match r2::eval_memo(ctx, env, &mut memo, *c) {
                    Ok(v) => cv.push(v),
                    Err(_) => {
                        ok = false;
                        break;
                    }
                }
            }
            if !ok {
                continue;
            }
            let old = match r2::apply_node(ctx, ev.expr, &cv) {
                Ok(v) => v,
                Err(_) => continue,
            };
            let new = match r2::eval_memo(ctx, env, &mut memo, newe) {
                Ok(v) => v,
                Err(_) => continue,
            };
            sh.count("step_evaluations", 1);
            if old != new && !reported_step {
                reported_step = true;
                let rs = rule_signature(ctx, ev);
                let w = crate::checks::c06::sig_width_class(node_w(ctx, ev.expr));
                let res_shape = r2::shape(ctx, newe);
                let sig = format!("{prop}|step|{}=>{}|w={w}", r2::op_name(&ctx[ev.expr]), res_shape);
                let _ = &rs;
                let kids: Vec<String> = ev.children.iter().map(|c| r2::render(ctx, *c)).collect();
                sh.violation(
                    sig,
                    format!(
                        "rewrite step changes the value\nnode: {} with rewritten children [{}]\nrewritten to: {}\nenv: {}\nbefore: {}  after: {}\n(while simplifying {} via {what})",
                        r2::op_name(&ctx[ev.expr]),
                        kids.join(" ; "),
                        r2::render(ctx, newe),
                        show_env(ctx, env),
                        old.show(),
                        new.show(),
                        util::trunc(&r2::render(ctx, e), 600)
                    ),
                    json!({"expr": r2::render(ctx, e)}),
                );
            }
        }
        // end to end
        let ve = r2::eval_memo(ctx, env, &mut memo, e);
        let vs = r2::eval_memo(ctx, env, &mut memo, s);
        sh.count("evaluations", 1);
        match (ve, vs) {
            (Ok(a), Ok(b)) => {
                if a != b {
                    if !reported_step {
                        let sig = format!("{prop}|value|{what}|root={}|w={}", r2::op_name(&ctx[e]), crate::checks::c06::sig_width_class(node_w(ctx, e)));
                        sh.violation(
                            sig,
                            format!(
                                "input: {}\nresult: {}\nenv: {}\ninput value {}  result value {}",
                                r2::render(ctx, e),
                                r2::render(ctx, s),
                                show_env(ctx, env),
                                a.show(),
                                b.show()
                            ),
                            json!({"expr": r2::render(ctx, e)}),
                        );
                    }
                    return Some(Judged { envs: envs.len(), exhaustive });
                }
            }
            (Err(m), _) | (_, Err(m)) => {
                // a symbol in the result that is not in the input
                let sig = format!("{prop}|new-symbol|{what}");
                sh.violation(sig, format!("input: {}\nresult: {}\n{}", r2::render(ctx, e), r2::render(ctx, s), m.0), json!({}));
                return None;
            }
        }
        if reported_step {
            break;
        }
    }
    Some(Judged { envs: envs.len(), exhaustive })
}

/// first rewrite step (if any) that folds into a literal whose words carry bits above the width
pub fn noncanonical_step(prop: &str, ctx: &Context, events: &[StepEvent], e: ExprRef, what: &str) -> Option<(String, String)> {
    use baa::BitVecOps;
    for ev in events {
        let Some(newe) = ev.result else { continue };
        if let patronus::expr::Expr::BVLiteral(v) = &ctx[newe] {
            let val = v.get(ctx);
            if !r2::is_canonical(&val) {
                let op = r2::op_name(&ctx[ev.expr]);
                let disc = match (&ctx[ev.expr], ev.children.as_slice()) {
                    (patronus::expr::Expr::BVShiftLeft(..), [a, b]) => {
                        let amt = r2::eval(ctx, &Env::default(), *b).ok().and_then(|x| x.bv().to_u64());
                        let w = node_w(ctx, *a) as u64;
                        match amt {
                            Some(n) if n < w && n >= 64 && n % 64 == 0 => "amount-multiple-of-64",
                            _ => "other",
                        }
                    }
                    _ => "-",
                };
                let kids: Vec<String> = ev.children.iter().map(|c| r2::render(ctx, *c)).collect();
                return Some((
                    format!("{prop}|noncanonical-literal|op={op}|{disc}"),
                    format!(
                        "rewrite step folds {}({}) into a literal of width {} whose words {:x?} carry bits above the width\n(while simplifying {} via {what})",
                        op,
                        kids.join(" ; "),
                        val.width(),
                        val.words(),
                        util::trunc(&r2::render(ctx, e), 600)
                    ),
                ));
            }
        }
    }
    None
}

pub fn node_w(ctx: &Context, e: ExprRef) -> u32 {
    use patronus::expr::{Type, TypeCheck};
    let mut w = match ctx[e].get_type(ctx) {
        Type::BV(w) => w,
        Type::Array(a) => a.data_width,
    };
    for c in r2::children(ctx, e) {
        if let Type::BV(cw) = ctx[c].get_type(ctx) {
            w = w.max(cw);
        }
    }
    w
}

/// run one of the three simplifier entry points with the observer installed
pub fn run_simplifier(ctx: &mut Context, e: ExprRef, variant: u64, max_events: usize) -> (Result<ExprRef, util::PanicInfo>, Vec<StepEvent>) {
    let log = install_observer(max_events);
    let r = util::catch(|| match variant % 3 {
        0 => simplify_single_expression(ctx, e),
        1 => Simplifier::new(SparseExprMap::default()).simplify(ctx, e),
        _ => Simplifier::new(DenseExprMetaData::default()).simplify(ctx, e),
    });
    remove_observer();
    let events = log.borrow().clone();
    (r, events)
}

pub const VARIANTS: [&str; 3] = ["simplify_single_expression", "Simplifier<Sparse>", "Simplifier<Dense>"];

impl C01 {
    fn one(&self, sh: &mut Shard, ctx: &mut Context, rng: &mut Rng, e: ExprRef, fam: &str, variant: u64, max_bits: u64, nsamples: usize) {
        let (res, events) = run_simplifier(ctx, e, variant, 200_000);
        let what = VARIANTS[(variant % 3) as usize];
        sh.count("rewrite_events", events.len() as u64);
        for ev in events.iter() {
            if ev.result.is_some() {
                let rs = rule_signature(ctx, ev);
                sh.hist("rule_signatures", &rs);
                sh.count("rewrites_fired", 1);
            }
        }
        let s = match res {
            Ok(s) => s,
            Err(p) => {
                if p.msg.contains("VERIF-STEP-LIMIT") || p.msg.contains("VERIF-CHAIN-LIMIT") {
                    // termination is C13's property; without a result there is nothing to judge here
                    sh.inconclusive(format!("the simplifier did not terminate ({}) for {}", p.msg, util::trunc(&r2::render(ctx, e), 300)));
                } else if p.in_harness() {
                    sh.inconclusive(format!("harness panic {} {}", p.loc(), p.msg));
                } else if let Some((sig, detail)) = noncanonical_step("C01", ctx, &events, e, what) {
                    sh.violation(sig, format!("{detail}\nlater the simplifier panicked at {}: {}", p.loc(), util::trunc(&p.msg, 200)), json!({"expr": r2::render(ctx, e)}));
                } else {
                    // attribute to the operator being rewritten when the panic happened
                    let last = events.last().map(|ev| r2::op_name(&ctx[ev.expr])).unwrap_or("?");
                    let sig = format!("C01|panic|{}|{}", p.loc(), panic_class(ctx, e, &p));
                    sh.violation(
                        sig,
                        format!("simplifier panicked at {}: {}\ninput: {}\nlast completed step was on a `{last}` node", p.loc(), util::trunc(&p.msg, 200), r2::render(ctx, e)),
                        json!({"expr": r2::render(ctx, e)}),
                    );
                }
                return;
            }
        };
        sh.hist("family", fam);
        if s != e {
            sh.distinct(util::hash_str(&r2::render(ctx, e)));
            sh.count("changed_by_simplifier", 1);
        }
        if sh.want_sample() && s != e {
            sh.sample(json!({"input": util::trunc(&r2::render(ctx, e), 300), "simplified": util::trunc(&r2::render(ctx, s), 300), "family": fam, "rewrite_steps": events.len(), "entry": what}));
        }
        if let Some(j) = judge_simplification("C01", sh, ctx, rng, e, s, &events, what, max_bits, nsamples) {
            if j.exhaustive {
                sh.count("judged_exhaustively", 1);
            }
        }
    }
}

/// coarse description of the input for panic signatures: does it contain a wide multiplication?
fn panic_class(ctx: &Context, e: ExprRef, p: &util::PanicInfo) -> String {
    if p.file.contains("baa") && p.msg.contains("multiplication") {
        let wide_mul = r2::post_order(ctx, &[e]).into_iter().any(|n| matches!(ctx[n], patronus::expr::Expr::BVMul(_, _, w) if w > 128));
        if wide_mul {
            return "mul-wider-than-128".into();
        }
    }
    "-".into()
}

/// directed cases: witnesses of the known findings and of repaired defects (regressions)
fn directed(ctx: &mut Context, n: u64) -> Option<ExprRef> {
    use crate::refsem::bv::{Bv, pow2};
    use crate::refsem::expr_eval::baa_from_bv;
    let lit = |ctx: &mut Context, w: u32, v: num_bigint::BigUint| ctx.bv_lit(&baa_from_bv(&Bv::new(w, v)));
    Some(match n {
        0 => {
            let a = lit(ctx, 129, 3u32.into());
            let b = lit(ctx, 129, 5u32.into());
            ctx.mul(a, b)
        }
        1 => {
            let l = lit(ctx, 65, pow2(62));
            let k = lit(ctx, 65, 64u32.into());
            let s = ctx.shift_left(l, k);
            let a = ctx.bv_symbol("a65", 65);
            ctx.and(s, a)
        }
        2..=10 => {
            // repaired: shifts by literals >= 2^32
            let w = [33, 64, 129][((n - 2) % 3) as usize];
            let a = ctx.bv_symbol("a", w);
            let k = lit(ctx, w, pow2(32) + num_bigint::BigUint::from((n - 2) / 3 % 2));
            match (n - 2) / 3 {
                0 => ctx.shift_left(a, k),
                1 => ctx.shift_right(a, k),
                _ => ctx.arithmetic_shift_right(a, k),
            }
        }
        11 => {
            let a = lit(ctx, 100, pow2(99));
            ctx.greater_or_equal(a, a)
        }
        _ => return None,
    })
}
const N_DIRECTED: u64 = 12;

impl C01 {
    /// "... or to all expressions of a transition system": simplify_expressions on a generated system; the system
    /// must keep its inputs, states and the presence of every init/next function, and every function is judged like a
    /// single expression (end to end and per rewrite step)
    fn system_case(&self, sh: &mut Shard, rng: &mut Rng) {
        use crate::wl::sys::{SysCfg, describe, gen_system};
        let mut ctx = Context::default();
        let mut cfg = SysCfg::default();
        cfg.max_bv_width = *rng.pick(&[3u32, 4, 8, 33, 65]);
        if cfg.max_bv_width > 4 {
            cfg.max_state_bits = 3 * cfg.max_bv_width;
            cfg.max_input_bits = 2 * cfg.max_bv_width;
        }
        cfg.nextless_states = rng.flip();
        cfg.init_reads_inputs = rng.flip();
        let sys = gen_system(rng, &mut ctx, &cfg, "").sys;
        let label = describe(&ctx, &sys);
        let mut simp = sys.clone();
        let log = install_observer(2_000_000);
        let r = util::catch(|| patronus::system::transform::simplify_expressions(&mut ctx, &mut simp));
        remove_observer();
        let events: Vec<StepEvent> = log.borrow().clone();
        sh.count("systems_simplified", 1);
        if let Err(p) = r {
            if p.msg.contains("VERIF-STEP-LIMIT") || p.msg.contains("VERIF-CHAIN-LIMIT") {
                sh.inconclusive(format!("simplify_expressions did not terminate ({}); termination is judged by C13", util::trunc(&p.msg, 100)));
            } else if p.file.contains("baa") && p.msg.contains("multiplication") {
                sh.count("systems_hitting_the_known_wide_mul_panic", 1);
            } else {
                sh.violation(format!("C01|system|panic|{}", p.loc()), format!("simplify_expressions panicked at {}: {}\n{label}", p.loc(), util::trunc(&p.msg, 200)), json!({}));
            }
            return;
        }
        if simp.inputs != sys.inputs || simp.states.iter().map(|s| s.symbol).collect::<Vec<_>>() != sys.states.iter().map(|s| s.symbol).collect::<Vec<_>>() {
            sh.violation("C01|system|symbols-changed", format!("inputs or state symbols differ after simplify_expressions\n{label}--- after\n{}", describe(&ctx, &simp)), json!({}));
            return;
        }
        let pairs = match super::c11::paired_roots(&sys, &simp) {
            Ok(p) => p,
            Err(d) => {
                sh.violation("C01|system|structure", format!("{d} after simplify_expressions\n{label}--- after\n{}", describe(&ctx, &simp)), json!({}));
                return;
            }
        };
        for (role, p, q) in pairs {
            let ev: Vec<StepEvent> = vec![];
            let _ = &events;
            if judge_simplification("C01", sh, &mut ctx, rng, p, q, &ev, &format!("simplify_expressions {}", role.split('[').next().unwrap_or("")), 12, 16).is_none() {
                return;
            }
            sh.count("system_functions_judged", 1);
        }
    }
}

impl Check for C01 {
    fn id(&self) -> &'static str {
        "C01"
    }
    fn work(&self, tier: Tier) -> Vec<WorkItem> {
        let mut ctx = Context::default();
        let n = sysenum::scope(&mut ctx, tier.pick(&[1, 2], &[1, 2, 3])).recipes.len() as u64;
        vec![WorkItem { mode: "directed", count: N_DIRECTED }, WorkItem { mode: "sys", count: n }, WorkItem { mode: "system", count: tier.pick(6_000, 400_000) }, WorkItem { mode: "rand", count: tier.pick(800_000, 40_000_000) }]
    }
    fn evaluations_counter(&self) -> &'static str {
        "evaluations"
    }
    fn rule(&self) -> String {
        "mode sys: every term of depth<=2 over widths {1,2} (quick) / {1,2,3} (thorough), 2 symbols + literals 0,1,ones,other per width, all operators incl. div/rem, all slice bounds, extensions by 1,2 - enumerated and judged on ALL assignments; mode rand: G1 rule-directed random DAGs (depth<=4, width classes 1/2-8/31-33/63-65/127-129, literal shapes incl. shift amounts >=width, 2^32, 2^64, arrays) judged on all assignments when symbol bits<=10 else 24 corner/correlated ones. Each term goes through simplify_single_expression / Simplifier<Sparse> / Simplifier<Dense> with the H2 observer installed; both the end result and every individual rewrite step are compared by the big-integer reference evaluator; result deep-type-checked. mode system: G2 transition systems (incl. next/init functions that are bare symbols used nowhere else, init and next sharing one node, states without next) through system::transform::simplify_expressions: inputs, state symbols and the presence of every init/next function unchanged, every function equivalent and of the same type. distinct_nontrivial = distinct input terms the simplifier changed.".into()
    }
    fn assumptions(&self) -> Vec<String> {
        vec![
            "equivalence is decided by evaluation on the assignments stated, not by proof".into(),
            "reference semantics R1/R2 (num-bigint) is the oracle".into(),
            "system-wide application (simplify_expressions) is judged here function by function on generated systems (mode system) and, together with lock-step simulation and the shipped designs, by C11".into(),
        ]
    }
    fn shard_begin(&self, _sh: &mut Shard) {}
    fn run_case(&self, sh: &mut Shard, case: &CaseId) {
        let mut rng = Rng::new(sh.case_seed());
        if case.mode == "sys" {
            thread_local! {
                static SCOPE: RefCell<Option<(Context, sysenum::Scope)>> = const { RefCell::new(None) };
            }
            let widths: &[u32] = sh.tier.pick(&[1, 2], &[1, 2, 3]);
            let (mut ctx, scope) = SCOPE.with(|s| s.borrow_mut().take()).unwrap_or_else(|| {
                let mut ctx = Context::default();
                let sc = sysenum::scope(&mut ctx, widths);
                (ctx, sc)
            });
            if (case.n as usize) < scope.recipes.len() {
                let e = sysenum::build(&mut ctx, scope.recipes[case.n as usize]);
                self.one(sh, &mut ctx, &mut rng, e, "systematic", case.n, 14, 0);
                sh.count("systematic_terms", 1);
            }
            SCOPE.with(|s| *s.borrow_mut() = Some((ctx, scope)));
            return;
        }
        if case.mode == "system" {
            self.system_case(sh, &mut rng);
            return;
        }
        let mut ctx = Context::default();
        let (e, fam) = if case.mode == "directed" {
            match directed(&mut ctx, case.n) {
                Some(e) => (e, "directed"),
                None => return,
            }
        } else {
            let mut g = ExprGen::new(&mut rng, GenCfg::default());
            g.top(&mut ctx)
        };
        for n in r2::post_order(&ctx, &[e]) {
            sh.hist("op_x_width", &format!("{}@{}", r2::op_name(&ctx[n]), width_class(node_w(&ctx, n))));
        }
        self.one(sh, &mut ctx, &mut rng, e, fam, case.n, 10, 24);
    }
    fn finalize(&self, m: &mut Merged, tier: Tier) {
        let sigs = m.hist_len("rule_signatures") as u64;
        m.floor("distinct rewrite rule signatures observed through H2", sigs, 60);
        let fams = m.hists.get("family").cloned().unwrap_or_default();
        let min_fam = fams.iter().filter(|(k, _)| *k != "directed" && *k != "systematic").map(|(_, v)| *v).min().unwrap_or(0);
        m.floor("hits of the least-hit template family", min_fam, tier.pick(1000, 10_000));
        m.floor("template families hit", fams.len() as u64, 24);
        m.floor("functions of generated systems judged after simplify_expressions", m.c("system_functions_judged"), tier.pick(20_000, 1_000_000));
        m.extra.insert("systematic_scope_exhaustive".into(), json!(true));
    }
}

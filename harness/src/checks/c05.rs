//! C05 SMT-LIB output of an expression is well-sorted and means the same

use super::common::show_env;
use crate::refsem::bv::Val;
use crate::refsem::expr_eval::{self as r2, Env};
use crate::refsem::smt::{self, Cmd, Evaluator, Model, SVal, Scope, Sort};
use crate::runner::*;
use crate::util::{self, Rng};
use crate::wl::expr::{ExprGen, GenCfg, judging_envs, s_type};
use crate::wl::sysenum::{BOp, UOp, build_bin, build_un};
use patronus::expr::{Context, Expr, ExprRef, Type, TypeCheck};
use patronus::smt::{SmtCommand, serialize_cmd};
use serde_json::json;
use std::cell::RefCell;

pub struct C05;

pub fn sort_of_type(t: Type) -> Sort {
    let s = |w: u32| if w == 1 { Sort::Bool } else { Sort::Bv(w) };
    match t {
        Type::BV(w) => s(w),
        Type::Array(a) => Sort::Arr(Box::new(s(a.index_width)), Box::new(s(a.data_width))),
    }
}

pub fn sval_of_val(v: &Val, t: Type) -> SVal {
    match (v, sort_of_type(t)) {
        (Val::B(b), Sort::Bool) => SVal::Bool(b.is_true()),
        (Val::B(b), Sort::Bv(_)) => SVal::Bv(b.clone()),
        (Val::A(a), Sort::Arr(i, e)) => SVal::Arr { isort: *i, esort: *e, default: a.default.clone(), map: a.map.clone() },
        _ => panic!("value/type mismatch"),
    }
}

pub fn cmd_text(ctx: &Context, cmd: &SmtCommand) -> Result<String, util::PanicInfo> {
    util::catch(|| {
        let mut buf = Vec::new();
        serialize_cmd(&mut buf, Some(ctx), cmd).expect("write");
        String::from_utf8(buf).expect("utf8")
    })
}

/// parse exactly one command from the emitted text
pub fn one_cmd(text: &str) -> Result<Cmd, String> {
    let sx = smt::parse_sexprs(text).map_err(|e| format!("syntax: {e:?}"))?;
    if sx.len() != 1 {
        return Err(format!("syntax: expected one command, found {} top-level items", sx.len()));
    }
    smt::parse_cmd(&sx[0])
}

/// the 1-bit producers of the coercion matrix
fn producers(ctx: &mut Context) -> Vec<(&'static str, ExprRef)> {
    let p = ctx.bv_symbol("p", 1);
    let q = ctx.bv_symbol("q", 1);
    let x = ctx.bv_symbol("x", 3);
    let y = ctx.bv_symbol("y", 3);
    let arr = ctx.array_symbol("m", 2, 1);
    let i2 = ctx.bv_symbol("i", 2);
    let ugt = ctx.greater(x, y);
    let sl = ctx.slice(x, 1, 1);
    let add = ctx.add(p, q);
    let rd = ctx.array_read(arr, i2);
    let ite = ctx.ite(p, q, ugt);
    let not = ctx.not(q);
    let neg = ctx.negate(p);
    let shl = ctx.shift_left(p, q);
    let eq = ctx.equal(x, y);
    let and = ctx.and(p, q);
    vec![
        ("symbol", p),
        ("literal", ctx.get_true()),
        ("literal0", ctx.get_false()),
        ("comparison", ugt),
        ("slice", sl),
        ("arith", add),
        ("read", rd),
        ("ite", ite),
        ("not", not),
        ("neg", neg),
        ("shift", shl),
        ("eq", eq),
        ("and", and),
    ]
}

/// all terms of the systematic coercion matrix
fn matrix(ctx: &mut Context) -> Vec<(String, ExprRef)> {
    let prods = producers(ctx);
    let mut out: Vec<(String, ExprRef)> = vec![];
    let x = ctx.bv_symbol("x", 3);
    let arr1 = ctx.array_symbol("m", 2, 1);
    let arr_b = ctx.array_symbol("mb", 1, 3);
    let arr_bb = ctx.array_symbol("mbb", 1, 1);
    let i2 = ctx.bv_symbol("i", 2);
    let bin_ops = [
        BOp::And, BOp::Or, BOp::Xor, BOp::Add, BOp::Sub, BOp::Mul, BOp::Shl, BOp::Lshr, BOp::Ashr, BOp::Udiv, BOp::Sdiv, BOp::Smod, BOp::Srem, BOp::Urem, BOp::Eq, BOp::Ugt, BOp::Sgt, BOp::Ugte, BOp::Sgte,
        BOp::Implies, BOp::Concat,
    ];
    for (na, a) in prods.clone() {
        for u in [UOp::Not, UOp::Neg, UOp::Zext(1), UOp::Zext(2), UOp::Sext(1), UOp::Sext(3)] {
            out.push((format!("{u:?}({na})"), build_un(ctx, u, a)));
        }
        // mixed-width consumers
        out.push((format!("concat({na},x)"), ctx.concat(a, x)));
        out.push((format!("concat(x,{na})"), ctx.concat(x, a)));
        out.push((format!("arrconst({na})"), ctx.array_const(a, 2)));
        out.push((format!("read(mb,{na})"), ctx.array_read(arr_b, a)));
        out.push((format!("read(mbb,{na})"), ctx.array_read(arr_bb, a)));
        out.push((format!("store(m,i,{na})"), ctx.array_store(arr1, i2, a)));
        out.push((format!("store(mb,{na},x)"), ctx.array_store(arr_b, a, x)));
        out.push((format!("ite({na},x,x')"), {
            let nx = ctx.not(x);
            ctx.ite(a, x, nx)
        }));
        out.push((format!("ite({na},m,m')"), {
            let st = ctx.array_store(arr1, i2, a);
            ctx.ite(a, arr1, st)
        }));
        for (nb, b) in prods.clone() {
            for op in bin_ops {
                out.push((format!("{op:?}({na},{nb})"), build_bin(ctx, op, a, b)));
            }
            out.push((format!("store(mbb,{na},{nb})"), ctx.array_store(arr_bb, a, b)));
            out.push((format!("arreq(const {na}, const {nb})"), {
                let ca = ctx.array_const(a, 1);
                let cb = ctx.array_const(b, 1);
                ctx.equal(ca, cb)
            }));
            for (nc, c) in prods.iter().take(6).cloned() {
                out.push((format!("ite({na},{nb},{nc})"), ctx.ite(a, b, c)));
            }
        }
    }
    out
}

thread_local! {
    static MATRIX: RefCell<Option<(Context, Vec<(String, ExprRef)>)>> = const { RefCell::new(None) };
}

const PREFIXES: &[&str] = &["", "", "#x", "v_", "a b ", "x$y:", "0", "[3]#", "ü", "sig.", "~!@%", "let", "(", ";c ", "\"", "BitVec"];

impl C05 {
    /// all checks for one expression; returns false after reporting a violation
    pub fn check_expr(&self, sh: &mut Shard, ctx: &mut Context, rng: &mut Rng, e: ExprRef, label: &str, max_bits: u64, nsamples: usize) -> bool {
        let fail = |sh: &mut Shard, sig: String, d: String, ctx: &Context| {
            sh.violation(sig, format!("{d}\nexpression: {}\n({label})", util::trunc(&r2::render(ctx, e), 800)), json!({"expr": r2::render(ctx, e)}));
        };
        let mut scope = Scope::new();
        let syms = r2::symbols_of(ctx, &[e]);
        // declarations
        for s in &syms {
            let text = match cmd_text(ctx, &SmtCommand::DeclareConst(*s)) {
                Ok(t) => t,
                Err(p) => {
                    fail(sh, format!("C05|panic|declare-const|{}", p.loc()), format!("serialize_cmd panicked: {}", p.msg), ctx);
                    return false;
                }
            };
            sh.count("commands_checked", 1);
            let want_name = ctx.get_symbol_name(*s).unwrap().to_string();
            match one_cmd(&text) {
                Ok(Cmd::DeclareConst(name, sort)) => {
                    if name != want_name || sort != sort_of_type(s_type(ctx, *s)) {
                        fail(sh, "C05|declare-const|wrong-name-or-sort".into(), format!("emitted `{}` declares `{name}` : {} but the symbol is `{want_name}` : {}", text.trim(), sort.show(), sort_of_type(s_type(ctx, *s)).show()), ctx);
                        return false;
                    }
                    if let Err(m) = scope.declare(&name, sort) {
                        fail(sh, format!("C05|declare-const|{}", m.split(':').next().unwrap_or("")), format!("emitted `{}` is not acceptable: {m}", text.trim()), ctx);
                        return false;
                    }
                }
                Ok(other) => {
                    fail(sh, "C05|declare-const|wrong-command".into(), format!("emitted `{}` reads as {other:?}", text.trim()), ctx);
                    return false;
                }
                Err(m) => {
                    fail(sh, format!("C05|declare-const|{}", m.split(':').next().unwrap_or("")), format!("emitted `{}` is rejected: {m}", text.trim()), ctx);
                    return false;
                }
            }
        }
        // the term inside several commands
        let ty = e.get_type(ctx);
        let want_sort = sort_of_type(ty);
        let mut terms: Vec<(&'static str, smt::Term)> = vec![];
        let mut cmds: Vec<(&'static str, SmtCommand)> = vec![("get-value", SmtCommand::GetValue(e))];
        let mut assumptions: Vec<ExprRef> = vec![];
        let mut assumption_terms: Vec<smt::Term> = vec![];
        if ty == Type::BV(1) {
            cmds.push(("assert", SmtCommand::Assert(e)));
            // assumption lists of 1..5 Bool terms in any order: the expression, the expression under negations,
            // and atoms (1-bit symbols of the expression, true, false), so that atoms also meet atoms
            let n = rng.range(1, 5) as usize;
            let mut atoms: Vec<ExprRef> = syms.iter().copied().filter(|x| s_type(ctx, *x) == Type::BV(1)).collect();
            atoms.push(ctx.get_true());
            atoms.push(ctx.get_false());
            let mut v = vec![e];
            for k in 1..n {
                if rng.flip() {
                    v.push(*rng.pick(&atoms));
                } else {
                    let mut t = e;
                    for _ in 0..k {
                        t = ctx.not(t);
                    }
                    v.push(t);
                }
            }
            rng.shuffle(&mut v);
            assumptions = v.clone();
            cmds.push(("check-sat-assuming", SmtCommand::CheckSatAssuming(v)));
        }
        let def_name = ctx.string("the definition".into());
        let def_sym = ctx.symbol(def_name, ty);
        cmds.push(("define-fun", SmtCommand::DefineConst(def_sym, e)));
        for (cname, cmd) in cmds {
            let text = match cmd_text(ctx, &cmd) {
                Ok(t) => t,
                Err(p) => {
                    fail(sh, format!("C05|panic|{cname}|{}", p.loc()), format!("serialize_cmd panicked at {}: {}", p.loc(), util::trunc(&p.msg, 200)), ctx);
                    return false;
                }
            };
            sh.count("commands_checked", 1);
            let parsed = match one_cmd(&text) {
                Ok(c) => c,
                Err(m) => {
                    fail(sh, format!("C05|{cname}|{}", m.split(':').next().unwrap_or("")), format!("emitted command is rejected: {m}\ntext: {}", util::trunc(text.trim(), 1500)), ctx);
                    return false;
                }
            };
            let ts: Vec<smt::Term> = match (cname, parsed) {
                ("get-value", Cmd::GetValue(ts)) if ts.len() == 1 => ts,
                ("assert", Cmd::Assert(t)) => vec![t],
                ("check-sat-assuming", Cmd::CheckSatAssuming(ts)) => ts,
                ("define-fun", Cmd::DefineFun(name, sort, body)) => {
                    if name != "the definition" || sort != want_sort {
                        fail(sh, "C05|define-fun|wrong-name-or-sort".into(), format!("define-fun `{name}` : {} expected `the definition` : {}", sort.show(), want_sort.show()), ctx);
                        return false;
                    }
                    vec![body]
                }
                (_, other) => {
                    fail(sh, format!("C05|{cname}|wrong-command"), format!("emitted `{}` reads as {other:?}", util::trunc(text.trim(), 400)), ctx);
                    return false;
                }
            };
            if cname == "check-sat-assuming" {
                if ts.len() != assumptions.len() {
                    fail(sh, "C05|check-sat-assuming|wrong-number-of-assumptions".into(), format!("{} assumptions were written, the text lists {}\ntext: {}", assumptions.len(), ts.len(), util::trunc(text.trim(), 1500)), ctx);
                    return false;
                }
                sh.hist("assumption_list_lengths", &ts.len().to_string());
                assumption_terms = ts.clone();
            }
            for (k, t) in ts.iter().enumerate() {
                match scope.sort_of(t) {
                    Err(m) => {
                        let kind = m.split(':').next().unwrap_or("").to_string();
                        let what = self.localise(ctx, &scope, e);
                        fail(sh, format!("C05|{kind}|{what}"), format!("{cname}: {m}\ntext: {}", util::trunc(text.trim(), 1500)), ctx);
                        return false;
                    }
                    Ok(s) => {
                        let expect = if cname == "check-sat-assuming" || cname == "assert" { Sort::Bool } else { want_sort.clone() };
                        if s != expect {
                            fail(sh, format!("C05|wrong-sort|{cname}"), format!("{cname}: term {k} has sort {} expected {}\ntext: {}", s.show(), expect.show(), util::trunc(text.trim(), 1500)), ctx);
                            return false;
                        }
                    }
                }
            }
            if cname == "get-value" {
                terms.push((cname, ts[0].clone()));
            } else if cname == "define-fun" {
                terms.push((cname, ts[0].clone()));
            } else if cname == "assert" {
                terms.push((cname, ts[0].clone()));
            }
        }
        // meaning
        let (envs, exhaustive) = judging_envs(rng, ctx, &syms, max_bits, nsamples);
        if exhaustive {
            sh.count("judged_exhaustively", 1);
        }
        for env in envs.iter() {
            let want = match r2::eval(ctx, env, e) {
                Ok(v) => sval_of_val(&v, ty),
                Err(err) => {
                    sh.inconclusive(format!("reference evaluator: {}", err.0));
                    return false;
                }
            };
            let mut model = Model::new();
            for s in &syms {
                model.insert(ctx.get_symbol_name(*s).unwrap().to_string(), sval_of_val(&env[s], s_type(ctx, *s)));
            }
            // every assumption means what its expression means
            for (a, t) in assumptions.iter().zip(assumption_terms.iter()) {
                sh.count("evaluations", 1);
                let want_a = match r2::eval(ctx, env, *a) {
                    Ok(v) => sval_of_val(&v, Type::BV(1)),
                    Err(_) => continue,
                };
                match Evaluator::new(&scope, &model).eval(t) {
                    Ok(g) if g.same(&want_a) => {}
                    Ok(g) => {
                        fail(sh, "C05|check-sat-assuming|assumption-value".into(), format!("assumption {} is written as a term that evaluates to {} but the expression to {}\nenv: {}", util::trunc(&smt::show_term(t), 300), g.show(), want_a.show(), show_env(ctx, env)), ctx);
                        return false;
                    }
                    Err(m) => {
                        fail(sh, "C05|eval-error".into(), format!("check-sat-assuming: {m}"), ctx);
                        return false;
                    }
                }
            }
            for (cname, t) in terms.iter() {
                sh.count("evaluations", 1);
                let got = Evaluator::new(&scope, &model).eval(t);
                match got {
                    Ok(g) if g.same(&want) => {}
                    Ok(g) => {
                        let what = self.localise_value(ctx, &scope, e, env);
                        fail(sh, format!("C05|value|{what}"), format!("{cname}: the SMT-LIB term evaluates to {} but the expression to {}\nenv: {}\nterm: {}", g.show(), want.show(), show_env(ctx, env), util::trunc(&smt::show_term(t), 1500)), ctx);
                        return false;
                    }
                    Err(m) => {
                        fail(sh, "C05|eval-error".into(), format!("{cname}: {m}"), ctx);
                        return false;
                    }
                }
            }
        }
        true
    }

    /// smallest sub-expression whose own serialization is ill-sorted: operator + operand shapes
    fn localise(&self, ctx: &Context, scope: &Scope, e: ExprRef) -> String {
        for n in r2::post_order(ctx, &[e]) {
            if let Ok(text) = cmd_text(ctx, &SmtCommand::GetValue(n)) {
                let bad = match one_cmd(&text) {
                    Ok(Cmd::GetValue(ts)) => scope.sort_of(&ts[0]).is_err(),
                    _ => true,
                };
                if bad {
                    return node_shape(ctx, n);
                }
            }
        }
        "?".into()
    }

    fn localise_value(&self, ctx: &Context, scope: &Scope, e: ExprRef, env: &Env) -> String {
        for n in r2::post_order(ctx, &[e]) {
            let Ok(text) = cmd_text(ctx, &SmtCommand::GetValue(n)) else { continue };
            let Ok(Cmd::GetValue(ts)) = one_cmd(&text) else { continue };
            let mut model = Model::new();
            for s in r2::symbols_of(ctx, &[n]) {
                model.insert(ctx.get_symbol_name(s).unwrap().to_string(), sval_of_val(&env[&s], s_type(ctx, s)));
            }
            let (Ok(got), Ok(want)) = (Evaluator::new(scope, &model).eval(&ts[0]), r2::eval(ctx, env, n)) else { continue };
            if !got.same(&sval_of_val(&want, n.get_type(ctx))) {
                return node_shape(ctx, n);
            }
        }
        "?".into()
    }
}

fn node_shape(ctx: &Context, n: ExprRef) -> String {
    let kids: Vec<String> = r2::children(ctx, n)
        .iter()
        .map(|c| {
            let one = c.get_type(ctx) == Type::BV(1);
            format!("{}{}", r2::shape(ctx, *c), if one { ":1" } else { "" })
        })
        .collect();
    format!("{}({})", r2::op_name(&ctx[n]), kids.join(","))
}

impl Check for C05 {
    fn id(&self) -> &'static str {
        "C05"
    }
    fn work(&self, tier: Tier) -> Vec<WorkItem> {
        let mut ctx = Context::default();
        let n = matrix(&mut ctx).len() as u64;
        vec![WorkItem { mode: "matrix", count: n }, WorkItem { mode: "rand", count: tier.pick(200_000, 8_000_000) }]
    }
    fn evaluations_counter(&self) -> &'static str {
        "evaluations"
    }
    fn rule(&self) -> String {
        "mode matrix (enumerated): every operator x every argument position x 13 kinds of 1-bit producer {symbol, literal 1/0, comparison, 1-bit slice, 1-bit add, read of a Bool-valued array, ite, not, neg, shift, eq, and} incl. all pairs for binary operators, triples for ite, arrays with Bool index and/or Bool data; mode rand: G1 random DAGs incl. div/rem and arrays (index 1-5, data 1-65), symbol names with 14 prefixes (plain, spaces, $ : [ ] #, leading digit, unicode, reserved-looking, parentheses, quotes). For each expression: declare-const of every symbol, get-value, define-fun, and for 1-bit terms assert and check-sat-assuming (1-4 terms) are written with serialize_cmd and read by the strict SMT-LIB front end R6 (Bool and (_ BitVec 1) distinct; declared-before-use; identifier rules); the term is evaluated by the R6 evaluator under all assignments (<= 12 symbol bits) or 16 corner/correlated ones and compared with the reference evaluator on the expression. distinct_nontrivial = distinct expressions with at least one 1-bit operand in a non-root position or an array.".into()
    }
    fn assumptions(&self) -> Vec<String> {
        vec![
            "names containing `|` or `\\` (no SMT-LIB spelling), reserved words, theory symbols and names starting with `@`/`.` are outside the domain and not generated; a prefix that makes such a name is replaced".into(),
            "arbitrary Bool terms inside check-sat-assuming are accepted (z3, cvc5, bitwuzla accept them)".into(),
        ]
    }
    fn run_case(&self, sh: &mut Shard, case: &CaseId) {
        let mut rng = Rng::new(sh.case_seed());
        if case.mode == "matrix" {
            let (mut ctx, m) = MATRIX.with(|m| m.borrow_mut().take()).unwrap_or_else(|| {
                let mut ctx = Context::default();
                let m = matrix(&mut ctx);
                (ctx, m)
            });
            if let Some((label, e)) = m.get(case.n as usize).cloned() {
                sh.distinct(util::hash_str(&label));
                sh.hist("matrix_consumers", label.split('(').next().unwrap_or(""));
                self.check_expr(sh, &mut ctx, &mut rng, e, &label, 14, 0);
            }
            MATRIX.with(|mm| *mm.borrow_mut() = Some((ctx, m)));
            return;
        }
        let mut ctx = Context::default();
        let mut cfg = GenCfg::default();
        cfg.wide_mul = true;
        if rng.chance(1, 3) {
            cfg.small = true;
            cfg.max_width = 8;
            cfg.max_data_width = 3;
            cfg.max_index_width = 2;
        }
        let prefix = *rng.pick(PREFIXES);
        let (e, fam) = {
            let mut g = ExprGen::new(&mut rng, cfg);
            g.sym_prefix = prefix.to_string();
            g.top(&mut ctx)
        };
        sh.hist("name_prefixes", prefix);
        let has_bool_inside = r2::post_order(&ctx, &[e]).iter().any(|n| {
            r2::children(&ctx, *n).iter().any(|c| matches!(c.get_type(&ctx), Type::BV(1) | Type::Array(_)))
        });
        if has_bool_inside {
            sh.distinct(util::hash_str(&r2::render(&ctx, e)));
        }
        for n in r2::post_order(&ctx, &[e]) {
            if !matches!(ctx[n], Expr::BVSymbol { .. } | Expr::BVLiteral(_) | Expr::ArraySymbol { .. }) {
                sh.hist("operators", r2::op_name(&ctx[n]));
            }
        }
        let ok = self.check_expr(sh, &mut ctx, &mut rng, e, fam, 12, 16);
        if ok && sh.want_sample() {
            let t = cmd_text(&ctx, &SmtCommand::GetValue(e)).unwrap_or_default();
            sh.sample(json!({"expr": util::trunc(&r2::render(&ctx, e), 300), "smtlib": util::trunc(t.trim(), 400)}));
        }
    }
    fn finalize(&self, m: &mut Merged, tier: Tier) {
        m.floor("commands checked", m.c("commands_checked"), tier.pick(300_000, 10_000_000));
        m.floor("operators serialized", m.hist_len("operators") as u64, 32);
        m.floor("symbol name prefixes used", m.hist_len("name_prefixes") as u64, 14);
        m.extra.insert("matrix_exhaustive".into(), json!(true));
    }
}

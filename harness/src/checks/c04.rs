//! C04 The unrolled SMT encoding is well-formed and faithful

use super::c02::mc_sys_cfg;
use super::c05::sval_of_val;
use super::mcrun::*;
use crate::refsem::bv::Val;
use crate::refsem::expr_eval::Env;
use crate::refsem::sim::RefSim;
use crate::refsem::smt::{self, Binding, Cmd, Evaluator, Model, SVal, Scope};
use crate::runner::*;
use crate::util::{self, Rng};
use crate::wl::expr::{random_env, s_type};
use crate::wl::sys::{describe, gen_system};
use patronus::expr::{Context, ExprRef, TypeCheck};
use patronus::mc::{TransitionSystemEncoding, UnrollSmtEncoding};
use patronus::smt::{Solver, SolverContext};
use patronus::system::TransitionSystem;
use serde_json::json;

pub struct C04;

/// replays a recorded script into an R6 scope (declarations and definitions only)
fn load_script(text: &str) -> Result<(Scope, usize), String> {
    let sx = smt::parse_sexprs(text).map_err(|e| format!("script does not lex: {e:?}"))?;
    let mut scope = Scope::new();
    let mut n = 0;
    for s in sx.iter() {
        match smt::parse_cmd(s) {
            Ok(Cmd::DeclareConst(name, sort)) => {
                scope.declare(&name, sort).map_err(|m| format!("{}: {m}", s.show()))?;
                n += 1;
            }
            Ok(Cmd::DefineFun(name, sort, body)) => {
                scope.define(&name, sort, body).map_err(|m| format!("{}: {m}", util::trunc(&s.show(), 300)))?;
                n += 1;
            }
            Ok(Cmd::Push(k)) => (0..k).for_each(|_| scope.push()),
            Ok(Cmd::Pop(k)) => {
                for _ in 0..k {
                    scope.pop()?;
                }
            }
            Ok(_) => {}
            Err(m) => return Err(format!("{}: {m}", util::trunc(&s.show(), 300))),
        }
    }
    Ok((scope, n))
}

impl C04 {
    fn one(&self, sh: &mut Shard, ctx: &mut Context, sys: &TransitionSystem, rng: &mut Rng, label: &str, entry: u64, nsteps: u64, persona: &str) {
        let workdir = sh.workdir.clone();
        ensure_z3_server(&workdir);
        let replay = workdir.join(format!("c04_{}.smt2", sh.cur.n));
        let log = workdir.join(format!("c04_{}.log", sh.cur.n));
        let _ = std::fs::remove_file(&log);
        set_env("REFSOLVER_LOG", log.to_str().unwrap());
        set_env("REFSOLVER_SEED", "1");
        let solver = solver_by_name(persona);
        // drive the encoding through the public trait, talking to the reference solver
        let res = util::catch(|| -> Result<UnrollSmtEncoding, String> {
            let file = std::fs::File::create(&replay).map_err(|e| e.to_string())?;
            let mut smt_ctx = solver.start(Some(file)).map_err(|e| format!("{e}"))?;
            smt_ctx.set_logic(patronus::smt::Logic::All).map_err(|e| format!("{e}"))?;
            let mut enc = UnrollSmtEncoding::new(ctx, sys, false);
            enc.define_header(&mut smt_ctx).map_err(|e| format!("{e}"))?;
            enc.init_at(ctx, &mut smt_ctx, entry).map_err(|e| format!("{e}"))?;
            for _ in 0..nsteps {
                enc.unroll(ctx, &mut smt_ctx).map_err(|e| format!("{e}"))?;
            }
            // a final check makes the solver report anything it rejected on the way
            let _ = smt_ctx.check_sat();
            drop(smt_ctx);
            Ok(enc)
        });
        sh.count("scripts", 1);
        sh.hist("entry", &format!("init_at({entry})+{nsteps}xunroll"));
        let script = std::fs::read_to_string(&replay).unwrap_or_default();
        let fail = |sh: &mut Shard, sig: String, d: String| {
            sh.violation(sig, format!("{d}\nentry: init_at({entry}) then {nsteps} x unroll, persona {persona}\n{label}--- script\n{}", util::trunc(&script, 5000)), json!({}));
        };
        // oracle 1: nothing rejected by the strict front end
        let events = read_log(&log);
        if let Some((cmd, reason)) = first_rejection(&events) {
            if reason.starts_with("persona") {
                sh.count("scripts_hitting_persona_limit", 1);
                return;
            }
            let kind = reason.split(':').next().unwrap_or("").to_string();
            let head = cmd.trim_start_matches('(').split(' ').next().unwrap_or("").to_string();
            fail(sh, format!("C04|rejected|{head}|{kind}|entry{entry}"), format!("the reference solver rejects `{}`: {reason}", util::trunc(&cmd, 300)));
            return;
        }
        let enc = match res {
            Err(p) => {
                fail(sh, format!("C04|panic|{}", p.loc()), format!("encoding panicked at {}: {}", p.loc(), p.msg));
                return;
            }
            Ok(Err(e)) => {
                fail(sh, "C04|error".into(), format!("encoding returned an error: {e}"));
                return;
            }
            Ok(Ok(enc)) => enc,
        };
        sh.count("commands_accepted", events.iter().filter(|e| e.get("ok").is_some()).count() as u64);
        // oracle 2: faithful
        let (scope, ndefs) = match load_script(&script) {
            Ok(x) => x,
            Err(m) => {
                fail(sh, "C04|script-unreadable".into(), m);
                return;
            }
        };
        sh.count("declarations_and_definitions", ndefs as u64);
        let last = entry + nsteps;
        // the script must not leave anything free that the system determines: the only declared
        // constants are inputs (every step), states at the entry step (all of them for a symbolic
        // start, those without init for step 0), constant states (one symbol) and states without a
        // next function; everything else has to be a definition
        for (name, _) in scope.order.iter() {
            let Some(Binding::Declared(_)) = scope.lookup(name) else { continue };
            let (base, step) = match name.rsplit_once('@') {
                Some((b, k)) if k.parse::<u64>().is_ok() => (b.to_string(), Some(k.parse::<u64>().unwrap())),
                _ => (name.clone(), None),
            };
            if let Some(st) = sys.states.iter().find(|s| ctx.get_symbol_name(s.symbol) == Some(base.as_str())) {
                let allowed = match step {
                    None => (st.next == Some(st.symbol)) && (entry > 0 || st.init.is_none()),
                    Some(k) => st.next.is_none() || (k == entry && (entry > 0 || st.init.is_none())),
                };
                if !allowed {
                    let why = if step.is_none() { "a constant state with an init value is declared free instead of being defined by its init expression".to_string() } else { format!("state `{base}` is declared as a free constant at step {} although the system determines its value there", step.unwrap()) };
                    fail(sh, format!("C04|unconstrained-state|entry{entry}|{}", if (st.next == Some(st.symbol)) { "const-state" } else { "state" }), format!("`{name}`: {why}"));
                    return;
                }
            }
        }
        let all_syms: Vec<ExprRef> = sys.states.iter().map(|s| s.symbol).chain(sys.inputs.iter().copied()).collect();
        let nexec = sh.tier.pick(12, 60);
        for _ in 0..nexec {
            // a concrete execution: trace[k] = values of states and inputs in step k (k >= entry)
            let mut rs = RefSim::new(ctx, sys);
            let free = random_env(rng, ctx, &all_syms);
            if entry == 0 {
                if rs.init(|s| free[&s].clone()).is_err() {
                    return;
                }
            } else {
                // arbitrary symbolic start state: every state free
                for s in &all_syms {
                    rs.vals.insert(*s, free[s].clone());
                }
            }
            let mut trace: std::collections::BTreeMap<u64, Env> = Default::default();
            for k in entry..=last {
                if k > entry {
                    if rs.step().is_err() {
                        return;
                    }
                    let ins = random_env(rng, ctx, &sys.inputs);
                    for (i, v) in ins {
                        rs.set(i, v);
                    }
                }
                trace.insert(k, rs.vals.clone());
            }
            // bind the declared constants of the script
            let mut model = Model::new();
            for (name, _) in scope.order.iter() {
                let Some(Binding::Declared(sort)) = scope.lookup(name) else { continue };
                let (base, step) = match name.rsplit_once('@') {
                    Some((b, k)) if k.parse::<u64>().is_ok() => (b.to_string(), k.parse::<u64>().unwrap()),
                    _ => (name.clone(), entry),
                };
                let sym = all_syms.iter().find(|s| ctx.get_symbol_name(**s) == Some(base.as_str()));
                let (Some(sym), Some(env)) = (sym, trace.get(&step)) else {
                    fail(sh, "C04|unknown-declared-constant".into(), format!("declared constant `{name}` is not a state or input of the system at a step in {entry}..={last}"));
                    return;
                };
                let v = sval_of_val(&env[sym], s_type(ctx, *sym));
                if v.sort() != *sort {
                    fail(sh, "C04|declared-sort".into(), format!("`{name}` is declared with sort {} but the signal has sort {}", sort.show(), v.sort().show()));
                    return;
                }
                model.insert(name.clone(), v);
            }
            let mut ev = Evaluator::new(&scope, &model);
            // compare every state, input, constraint and bad at every step
            let mut signals: Vec<(&'static str, ExprRef)> = vec![];
            signals.extend(sys.states.iter().map(|s| ("state", s.symbol)));
            signals.extend(sys.inputs.iter().map(|s| ("input", *s)));
            signals.extend(sys.constraints.iter().map(|s| ("constraint", *s)));
            signals.extend(sys.bad_states.iter().map(|s| ("bad", *s)));
            for k in entry..=last {
                let env = &trace[&k];
                let mut memo = Env::default();
                for (role, e) in signals.iter() {
                    let at = match util::catch(|| enc.get_signal_at(ctx, *e, k)) {
                        Ok(a) => a,
                        Err(p) => {
                            fail(sh, format!("C04|get_signal_at-panic|{role}"), format!("get_signal_at({role}, step {k}) panicked: {}", p.msg));
                            return;
                        }
                    };
                    let want = match crate::refsem::expr_eval::eval_memo(ctx, env, &mut memo, *e) {
                        Ok(v) => v,
                        Err(_) => return,
                    };
                    let want = sval_of_val(&want, e.get_type(ctx));
                    let got: Result<SVal, String> = match ctx.get_symbol_name(at) {
                        Some(name) => ev.eval(&smt::Term::Sym(name.to_string())),
                        None => {
                            // literal true/false
                            crate::refsem::expr_eval::eval(ctx, &Env::default(), at).map(|v| sval_of_val(&v, at.get_type(ctx))).map_err(|e| e.0)
                        }
                    };
                    sh.count("signal_values_compared", 1);
                    match got {
                        Ok(g) if g.same(&want) => {}
                        Ok(g) => {
                            fail(
                                sh,
                                format!("C04|unfaithful|{role}|entry{entry}"),
                                format!("step {k}: {role} {} has value {} in the execution but its step symbol `{}` evaluates to {} in the script\nexecution (step {k}): {}", crate::refsem::expr_eval::render(ctx, *e), want.show(), ctx.get_symbol_name(at).unwrap_or("?"), g.show(), super::common::show_env(ctx, env)),
                            );
                            return;
                        }
                        Err(m) => {
                            fail(sh, format!("C04|symbol-not-in-script|{role}|entry{entry}"), format!("step {k}: {role} {}: step symbol `{}`: {m}", crate::refsem::expr_eval::render(ctx, *e), ctx.get_symbol_name(at).unwrap_or("?")));
                            return;
                        }
                    }
                }
            }
            sh.count("executions_checked", 1);
        }
        let _: Option<Val> = None;
        if sh.want_sample() {
            sh.sample(json!({"system": label, "entry": entry, "unroll_steps": nsteps, "script": util::trunc(&script, 1500)}));
        }
        let _ = std::fs::remove_file(&replay);
        let _ = std::fs::remove_file(&log);
    }
}

impl Check for C04 {
    fn id(&self) -> &'static str {
        "C04"
    }
    fn work(&self, tier: Tier) -> Vec<WorkItem> {
        vec![WorkItem { mode: "directed", count: 1 }, WorkItem { mode: "corpus", count: super::c11::corpus_files().len() as u64 }, WorkItem { mode: "direct", count: tier.pick(3_000, 200_000) }]
    }
    fn evaluations_counter(&self) -> &'static str {
        "signal_values_compared"
    }
    fn rule(&self) -> String {
        "G2 systems as in C02 (shared sub-terms between init/next/bad/constraint roots, init chains, const states, arrays, init reading step-0 inputs); UnrollSmtEncoding is driven through the public TransitionSystemEncoding trait with the real SmtLibSolverCtx text path into the reference solver: entry 0 = init_at(0) + 0..4 x unroll (the BMC entry), entry 1 = init_at(1) + 1..3 x unroll (the PDR entry, all states free). Oracle 1 (offline over the solver's event log): no command rejected by the strict SMT-LIB front end (declared/defined exactly once before use, well-sorted). Oracle 2: the recorded script is loaded into R6; for 12 (thorough 60) random concrete executions of the reference simulator the declared constants are bound to the execution (state@first step, input@k) and every define-fun is evaluated; for every step and every state, input, constraint and bad the value of the symbol returned by get_signal_at must equal the signal's value in that step. mode corpus: the shipped btor2 designs (quick <= 5 kB, thorough <= 40 kB; files whose state/input names are not unique are skipped because the oracle binds by name) go through the same two oracles with a random entry point and 1-3 unroll steps. distinct_nontrivial = distinct (system, entry, depth) scripts.".into()
    }
    fn assumptions(&self) -> Vec<String> {
        vec!["scripts that need constant arrays are not judged under the yices-smt2 persona (reported by C02 as a known finding)".into()]
    }
    fn prepare(&self, _tier: Tier) -> Result<(), String> {
        install_solvers()
    }
    fn shard_begin(&self, _sh: &mut Shard) {
        use_refsolver_path();
    }
    fn shard_end(&self, _sh: &mut Shard) {
        stop_z3_server();
    }
    fn nshards(&self, _tier: Tier) -> u64 {
        8
    }
    fn shard_timeout_s(&self, tier: Tier) -> u64 {
        tier.pick(1800, 6 * 3600)
    }
    fn run_case(&self, sh: &mut Shard, case: &CaseId) {
        let mut rng = Rng::new(sh.case_seed());
        let mut ctx = Context::default();
        if case.mode == "directed" {
            // a signal that only an init expression uses (`x_init`, used twice) reads a signal that only next
            // functions use (`n2`): entering at a later step must still define `n2` first
            let text = "1 sort bitvec 2\n2 sort bitvec 1\n3 state 1 s\n4 one 1\n5 init 1 3 4\n6 slice 2 3 1 1 n2\n7 add 1 3 4\n8 ite 1 6 3 7\n9 next 1 3 8\n10 not 2 6 x_init\n11 slice 2 3 0 0\n12 ite 2 11 10 -10\n13 xor 2 12 10\n14 state 2 t\n15 init 2 14 13\n16 xor 2 14 6\n17 next 2 14 16\n18 bad 14\n";
            let Some(sys) = patronus::btor2::parse_str(&mut ctx, text, Some("directed")) else { return };
            let label = describe(&ctx, &sys);
            for (entry, nsteps) in [(1u64, 1u64), (1, 2), (0, 2)] {
                for persona in ["z3", "cvc5"] {
                    sh.count("directed_scripts", 1);
                    self.one(sh, &mut ctx, &sys, &mut rng, &label, entry, nsteps, persona);
                }
            }
            return;
        }
        if case.mode == "corpus" {
            // the shipped designs: realistic signal graphs (many named signals, wide vectors, memories)
            let files = super::c11::corpus_files();
            let Some(path) = files.get(case.n as usize) else { return };
            let Ok(text) = std::fs::read_to_string(path) else { return };
            if text.len() > sh.tier.pick(5_000, 40_000) {
                sh.count("corpus_files_skipped_for_size", 1);
                return;
            }
            let Ok(Some(sys)) = util::catch(|| patronus::btor2::parse_str(&mut ctx, &text, Some("corpus"))) else { return };
            // the oracle binds script constants to signals by name: names have to identify states and inputs
            let mut names: Vec<&str> = sys.states.iter().map(|s| s.symbol).chain(sys.inputs.iter().copied()).filter_map(|s| ctx.get_symbol_name(s)).collect();
            let n_all = names.len();
            names.sort();
            names.dedup();
            if names.len() != n_all || names.iter().any(|n| n.contains('@')) {
                sh.count("corpus_files_skipped_for_ambiguous_names", 1);
                return;
            }
            let label = format!("shipped design {}\n", util::short_path(&path.to_string_lossy()));
            let (entry, nsteps) = if rng.flip() { (0, rng.range(1, 3)) } else { (1, rng.range(1, 2)) };
            let persona = *rng.pick(&["bitwuzla", "z3", "cvc5"]);
            let before = sh.c_local("executions_checked");
            self.one(sh, &mut ctx, &sys, &mut rng, &label, entry, nsteps, persona);
            if sh.c_local("executions_checked") > before {
                sh.count("corpus_scripts_judged", 1);
                sh.distinct(util::mix(&[util::hash_str(&label), entry, nsteps]));
            }
            return;
        }
        let cfg = mc_sys_cfg(&mut rng);
        let gs = gen_system(&mut rng, &mut ctx, &cfg, "");
        let sys = gs.sys;
        let label = describe(&ctx, &sys);
        let entry = rng.below(2);
        let nsteps = if entry == 0 { rng.below(5) } else { rng.range(1, 3) };
        let persona = *rng.pick(&["bitwuzla", "z3", "cvc5", "yices-smt2"]);
        sh.distinct(util::mix(&[util::hash_str(&label), entry, nsteps]));
        self.one(sh, &mut ctx, &sys, &mut rng, &label, entry, nsteps, persona);
    }
    fn finalize(&self, m: &mut Merged, tier: Tier) {
        m.floor("scripts", m.c("scripts"), tier.pick(3_000, 200_000));
        m.floor("executions checked against the script", m.c("executions_checked"), tier.pick(20_000, 5_000_000));
        m.floor("scripts of shipped designs judged (well-formed + faithful on executions)", m.c("corpus_scripts_judged"), tier.pick(40, 70));
    }
}

//! C17 The cone of influence is sufficient and syntactically tight

use super::c11::{corpus_files, zero_val};
use crate::refsem::bv::Val;
use crate::refsem::expr_eval::{self as r2, Env};
use crate::refsem::sim::RefSim;
use crate::runner::*;
use crate::util::{self, Rng};
use crate::wl::expr::{random_env, s_type};
use crate::wl::sys::{SysCfg, all_roots, describe, gen_system};
use patronus::expr::{Context, ExprRef};
use patronus::system::TransitionSystem;
use patronus::system::analysis::{cone_of_influence, cone_of_influence_comb, cone_of_influence_init};
use rustc_hash::FxHashSet;
use serde_json::json;

pub struct C17;

#[derive(Clone, Copy, PartialEq, Eq, Debug)]
enum Variant {
    Full,
    Init,
    Comb,
}

/// independent syntactic dependency reachability
fn syntactic_cone(ctx: &Context, sys: &TransitionSystem, root: ExprRef, v: Variant) -> FxHashSet<ExprRef> {
    let mut seen: FxHashSet<ExprRef> = Default::default();
    let mut out: FxHashSet<ExprRef> = Default::default();
    let mut stack = vec![root];
    while let Some(e) = stack.pop() {
        if !seen.insert(e) {
            continue;
        }
        stack.extend(r2::children(ctx, e));
        if ctx[e].is_symbol() {
            if let Some(st) = sys.states.iter().find(|s| s.symbol == e) {
                out.insert(e);
                if v != Variant::Comb {
                    stack.extend(st.init);
                }
                if v == Variant::Full {
                    stack.extend(st.next);
                }
            } else if sys.inputs.contains(&e) {
                out.insert(e);
            }
        }
    }
    out
}

impl C17 {
    fn check_root(&self, sh: &mut Shard, ctx: &Context, sys: &TransitionSystem, rng: &mut Rng, root: ExprRef, label: &str, npairs: usize) -> bool {
        for v in [Variant::Full, Variant::Init, Variant::Comb] {
            let reported = match util::catch(|| match v {
                Variant::Full => cone_of_influence(ctx, sys, root),
                Variant::Init => cone_of_influence_init(ctx, sys, root),
                Variant::Comb => cone_of_influence_comb(ctx, sys, root),
            }) {
                Ok(c) => c,
                Err(p) => {
                    sh.violation(format!("C17|panic|{v:?}|{}", p.loc()), format!("cone analysis panicked at {}: {}\nroot {}\n{label}", p.loc(), p.msg, r2::render(ctx, root)), json!({}));
                    return false;
                }
            };
            sh.count("cones_computed", 1);
            let mine = syntactic_cone(ctx, sys, root, v);
            let allowed: FxHashSet<ExprRef> = sys.states.iter().map(|s| s.symbol).chain(sys.inputs.iter().copied()).collect();
            for r in &reported {
                if !allowed.contains(r) {
                    sh.violation(format!("C17|not-input-or-state|{v:?}"), format!("{v:?} cone of {} contains {} which is neither an input nor a state\n{label}", r2::render(ctx, root), r2::render(ctx, *r)), json!({}));
                    return false;
                }
                if !mine.contains(r) {
                    sh.violation(format!("C17|not-tight|{v:?}"), format!("{v:?} cone of {} contains {} on which the root does not syntactically depend\n{label}", r2::render(ctx, root), r2::render(ctx, *r)), json!({}));
                    return false;
                }
            }
            let cone: FxHashSet<ExprRef> = reported.iter().copied().collect();
            if cone.len() < allowed.len() {
                sh.count("cones_strictly_smaller_than_system", 1);
            }
            // sufficiency by perturbation
            let all_syms: Vec<ExprRef> = sys.states.iter().map(|s| s.symbol).chain(sys.inputs.iter().copied()).collect();
            for _ in 0..npairs {
                sh.count("perturbation_pairs", 1);
                let res = match v {
                    Variant::Comb => {
                        // arbitrary current valuation; symbols outside the cone perturbed directly
                        let a = random_env(rng, ctx, &all_syms);
                        let mut b = random_env(rng, ctx, &all_syms);
                        for s in &all_syms {
                            if cone.contains(s) {
                                b.insert(*s, a[s].clone());
                            }
                        }
                        match (r2::eval(ctx, &a, root), r2::eval(ctx, &b, root)) {
                            (Ok(x), Ok(y)) if x == y => Ok(()),
                            (Ok(x), Ok(y)) => Err(format!("values {} vs {} under\n  A: {}\n  B: {}", x.show(), y.show(), super::common::show_env(ctx, &a), super::common::show_env(ctx, &b))),
                            (Err(e), _) | (_, Err(e)) => Err(format!("evaluation failed: {}", e.0)),
                        }
                    }
                    Variant::Init | Variant::Full => {
                        let steps = if v == Variant::Init { 0 } else { 8 };
                        self.perturb_run(ctx, sys, rng, root, &cone, steps)
                    }
                };
                if let Err(d) = res {
                    let missing: Vec<String> = mine.iter().filter(|m| !cone.contains(m)).map(|m| r2::render(ctx, *m)).collect();
                    sh.violation(
                        format!("C17|insufficient|{v:?}"),
                        format!(
                            "{v:?} cone of {} is [{}]; two executions that agree on it give different values: {d}\nsyntactic dependencies missing from the cone: [{}]\n{label}",
                            r2::render(ctx, root),
                            reported.iter().map(|r| r2::render(ctx, *r)).collect::<Vec<_>>().join(", "),
                            missing.join(", ")
                        ),
                        json!({}),
                    );
                    return false;
                }
            }
        }
        true
    }

    /// two reference executions agreeing on the cone (inputs at every step, free initial state values)
    fn perturb_run(&self, ctx: &Context, sys: &TransitionSystem, rng: &mut Rng, root: ExprRef, cone: &FxHashSet<ExprRef>, steps: usize) -> Result<(), String> {
        let all_syms: Vec<ExprRef> = sys.states.iter().map(|s| s.symbol).chain(sys.inputs.iter().copied()).collect();
        let fa = random_env(rng, ctx, &all_syms);
        let mut fb = random_env(rng, ctx, &all_syms);
        for s in &all_syms {
            if cone.contains(s) {
                fb.insert(*s, fa[s].clone());
            }
        }
        let mut a = RefSim::new(ctx, sys);
        let mut b = RefSim::new(ctx, sys);
        a.init(|s| fa[&s].clone()).map_err(|e| e.0)?;
        b.init(|s| fb[&s].clone()).map_err(|e| e.0)?;
        for step in 0..=steps {
            if step > 0 {
                a.step().map_err(|e| e.0)?;
                b.step().map_err(|e| e.0)?;
                let ia = random_env(rng, ctx, &sys.inputs);
                let ib = random_env(rng, ctx, &sys.inputs);
                for i in &sys.inputs {
                    a.set(*i, ia[i].clone());
                    b.set(*i, if cone.contains(i) { ia[i].clone() } else { ib[i].clone() });
                }
            }
            let (x, y) = (a.get(root).map_err(|e| e.0)?, b.get(root).map_err(|e| e.0)?);
            if x != y {
                return Err(format!("step {step}: {} vs {}", x.show(), y.show()));
            }
        }
        Ok(())
    }
}

impl Check for C17 {
    fn id(&self) -> &'static str {
        "C17"
    }
    fn work(&self, tier: Tier) -> Vec<WorkItem> {
        vec![WorkItem { mode: "gen", count: tier.pick(12_000, 1_000_000) }, WorkItem { mode: "corpus", count: corpus_files().len() as u64 }]
    }
    fn evaluations_counter(&self) -> &'static str {
        "perturbation_pairs"
    }
    fn rule(&self) -> String {
        "G2 systems with long init/next chains (init reading earlier states and inputs, states first reached through other states' next/init links) and the corpus designs; for every root function and 5 random inner nodes, each of cone_of_influence / _init / _comb is compared with an independent syntactic dependency reachability (reported subset of it and of inputs+states) and tested for sufficiency with 32 (corpus: 4) perturbation pairs in the reference simulator: two executions agreeing on the cone (inputs in the cone at every step, free initial values of cone states) and random elsewhere must give the root the same value at every step <= 8 (full), right after init (init), in the current step (comb). distinct_nontrivial = distinct (system, root) pairs whose cone is strictly smaller than inputs+states.".into()
    }
    fn assumptions(&self) -> Vec<String> {
        vec!["sufficiency is tested on sampled execution pairs, not proven".into()]
    }
    fn run_case(&self, sh: &mut Shard, case: &CaseId) {
        let mut rng = Rng::new(sh.case_seed());
        let mut ctx = Context::default();
        let (sys, label, npairs) = if case.mode == "corpus" {
            let files = corpus_files();
            let Some(f) = files.get(case.n as usize) else { return };
            let size = std::fs::metadata(f).map(|m| m.len()).unwrap_or(0);
            if size > 150_000 && sh.tier == Tier::Quick {
                return;
            }
            let Ok(text) = std::fs::read_to_string(f) else { return };
            let name = f.file_name().unwrap().to_string_lossy().to_string();
            let Ok(Some(sys)) = util::catch(|| patronus::btor2::parse_str(&mut ctx, &text, Some(&name))) else { return };
            sh.count("corpus_files", 1);
            (sys, format!("corpus file {}", f.display()), 3)
        } else {
            let mut cfg = SysCfg::default();
            cfg.max_states = 6;
            cfg.max_state_bits = 24;
            cfg.max_input_bits = 8;
            cfg.init_reads_inputs = rng.flip();
            cfg.nextless_states = true;
            cfg.array_inputs = true;
            cfg.max_depth = 2;
            let gs = gen_system(&mut rng, &mut ctx, &cfg, "");
            let l = describe(&ctx, &gs.sys);
            (gs.sys, l, 32)
        };
        let roots = all_roots(&sys);
        let inner: Vec<ExprRef> = r2::post_order(&ctx, &roots).into_iter().collect();
        let mut targets: Vec<ExprRef> = if case.mode == "corpus" {
            let mut t = vec![];
            for _ in 0..12.min(roots.len()) {
                t.push(*rng.pick(&roots));
            }
            t
        } else {
            roots.clone()
        };
        for _ in 0..5.min(inner.len()) {
            targets.push(*rng.pick(&inner));
        }
        targets.extend(sys.states.iter().map(|s| s.symbol).take(3));
        targets.sort();
        targets.dedup();
        let _ = (zero_val, Val::B);
        let _: Option<Env> = None;
        for t in targets {
            sh.count("roots", 1);
            let smaller_before = sh.counters.get("cones_strictly_smaller_than_system").copied().unwrap_or(0);
            if !self.check_root(sh, &ctx, &sys, &mut rng, t, &label, npairs) {
                return;
            }
            if sh.counters.get("cones_strictly_smaller_than_system").copied().unwrap_or(0) > smaller_before {
                sh.distinct(util::hash_str(&format!("{label}{}", r2::render(&ctx, t))));
            }
        }
        if sh.want_sample() && case.mode != "corpus" {
            let t = roots[0];
            sh.sample(json!({"system": label, "root": r2::render(&ctx, t),
                "full_cone": cone_of_influence(&ctx, &sys, t).iter().map(|r| r2::render(&ctx, *r)).collect::<Vec<_>>()}));
        }
    }
    fn finalize(&self, m: &mut Merged, tier: Tier) {
        m.floor("cones computed", m.c("cones_computed"), tier.pick(300_000, 20_000_000));
        m.floor("cones strictly smaller than the system", m.c("cones_strictly_smaller_than_system"), tier.pick(150_000, 8_000_000));
        m.floor("corpus files", m.c("corpus_files"), tier.pick(90, 110));
    }
}

//! C18 The btor2 reader rejects bad input cleanly and only accepts well-typed systems

use super::c08::silence_stderr;
use super::c11::corpus_files;
use crate::refsem::btor2_ref::UNSUPPORTED;
use crate::refsem::expr_eval as r2;
use crate::runner::*;
use crate::util::{self, Rng};
use crate::wl::btor2gen::{gen_btor2, mutate};
use patronus::expr::{ArrayType, Context, ExprRef, Type, TypeCheck};
use patronus::system::TransitionSystem;
use rustc_hash::{FxHashMap, FxHashSet};
use serde_json::json;
use std::cell::RefCell;
use std::collections::HashMap;

pub struct C18;

thread_local! {
    static CORPUS: RefCell<Option<Vec<String>>> = const { RefCell::new(None) };
}

fn corpus_text(i: usize) -> Option<String> {
    CORPUS.with(|c| {
        let mut c = c.borrow_mut();
        if c.is_none() {
            let mut v = vec![];
            for f in corpus_files() {
                if std::fs::metadata(&f).map(|m| m.len()).unwrap_or(0) <= 12_000 {
                    if let Ok(t) = std::fs::read_to_string(&f) {
                        v.push(t);
                    }
                }
            }
            *c = Some(v);
        }
        let v = c.as_ref().unwrap();
        if v.is_empty() { None } else { Some(v[i % v.len()].clone()) }
    })
}

/// lenient reading of the text: declared sort of the node each bad/constraint/output refers to
/// (only meaningful for files the reader accepted, i.e. where all ids resolved)
fn declared_root_types(text: &str) -> (Vec<Option<Type>>, Vec<Option<Type>>, Vec<Option<Type>>) {
    let mut sorts: HashMap<i64, Type> = HashMap::new();
    let mut nodes: HashMap<i64, Type> = HashMap::new();
    let (mut outs, mut bads, mut cons) = (vec![], vec![], vec![]);
    for raw in text.lines() {
        let code = raw.split(';').next().unwrap_or("");
        let t: Vec<&str> = code.split([' ', '\t']).filter(|x| !x.is_empty()).collect();
        if t.len() < 3 {
            continue;
        }
        let Ok(id) = t[0].parse::<i64>() else { continue };
        match t[1] {
            "sort" => {
                if t[2] == "bitvec" && t.len() >= 4 {
                    if let Ok(w) = t[3].parse::<u32>() {
                        sorts.insert(id, Type::BV(w));
                    }
                } else if t[2] == "array" && t.len() >= 5 {
                    let i = t[3].parse::<i64>().ok().and_then(|x| sorts.get(&x).copied());
                    let d = t[4].parse::<i64>().ok().and_then(|x| sorts.get(&x).copied());
                    if let (Some(Type::BV(iw)), Some(Type::BV(dw))) = (i, d) {
                        sorts.insert(id, Type::Array(ArrayType { index_width: iw, data_width: dw }));
                    }
                }
            }
            "bad" | "constraint" | "output" => {
                let ty = t[2].parse::<i64>().ok().and_then(|x| nodes.get(&x.abs()).copied());
                match t[1] {
                    "bad" => bads.push(ty),
                    "constraint" => cons.push(ty),
                    _ => outs.push(ty),
                }
            }
            "init" | "next" => {}
            _ => {
                if let Some(ty) = t[2].parse::<i64>().ok().and_then(|x| sorts.get(&x).copied()) {
                    nodes.insert(id, ty);
                }
            }
        }
    }
    (outs, bads, cons)
}

fn has_unsupported_op(text: &str) -> bool {
    text.lines().any(|l| {
        let code = l.split(';').next().unwrap_or("");
        let mut it = code.split([' ', '\t']).filter(|x| !x.is_empty());
        let _ = it.next();
        it.next().map(|op| UNSUPPORTED.contains(&op)).unwrap_or(false)
    })
}

impl C18 {
    pub fn check_text(&self, sh: &mut Shard, text: &str, label: &str) {
        let mut ctx = Context::default();
        sh.count("texts", 1);
        let res = util::catch(|| patronus::btor2::parse_str(&mut ctx, text, Some("m")));
        match res {
            Err(p) => {
                if p.in_harness() {
                    sh.inconclusive(format!("harness panic {} {}", p.loc(), p.msg));
                    return;
                }
                let excused = has_unsupported_op(text)
                    && p.file.ends_with("btor2/parse.rs")
                    && (p.msg.contains("support") || p.msg.contains("TODO") || p.msg.contains("unexpected unary op") || p.msg.contains("not yet implemented"));
                if excused {
                    sh.count("panics_on_unsupported_operators", 1);
                    return;
                }
                sh.hist("mutations_that_crashed", label);
                sh.violation(format!("C18|panic|{}", p.loc()), format!("parse_str panicked at {}: {}\nmutation: {label}\n{}", p.loc(), util::trunc(&p.msg, 300), util::trunc(text, 6000)), json!({"text": util::trunc(text, 20000)}));
            }
            Ok(None) => sh.count("rejected", 1),
            Ok(Some(sys)) => {
                sh.count("accepted", 1);
                self.check_system(sh, &ctx, &sys, text, label);
            }
        }
    }

    fn check_system(&self, sh: &mut Shard, ctx: &Context, sys: &TransitionSystem, text: &str, label: &str) {
        let fail = |sh: &mut Shard, sig: String, d: String| {
            sh.violation(sig, format!("{d}\nmutation: {label}\n{}", util::trunc(text, 6000)), json!({"text": util::trunc(text, 20000)}));
        };
        // every expression type checks, node by node
        let mut roots: Vec<ExprRef> = crate::wl::sys::all_roots(sys);
        roots.extend(sys.states.iter().map(|s| s.symbol));
        roots.extend(sys.inputs.iter().copied());
        let mut types: FxHashMap<ExprRef, Type> = Default::default();
        if let Err(m) = r2::deep_type_check_many(ctx, &roots, &mut types) {
            let kind = m.split(':').nth(0).unwrap_or("").split(' ').last().unwrap_or("").to_string();
            fail(sh, format!("C18|accepted-illtyped|{kind}"), format!("accepted system contains an ill-typed node: {m}"));
            return;
        }
        for (k, s) in sys.states.iter().enumerate() {
            let st = types[&s.symbol];
            if !ctx[s.symbol].is_symbol() {
                fail(sh, "C18|state-not-symbol".into(), format!("state {k} is not a symbol"));
                return;
            }
            if let Some(i) = s.init {
                if types[&i] != st {
                    fail(sh, "C18|init-type".into(), format!("state {k}: init has type {} but the state has type {}", types[&i], st));
                    return;
                }
            }
            if let Some(n) = s.next {
                if types[&n] != st {
                    fail(sh, "C18|next-type".into(), format!("state {k}: next has type {} but the state has type {}", types[&n], st));
                    return;
                }
            }
        }
        // declared widths of outputs / bads / constraints
        let (outs, bads, cons) = declared_root_types(text);
        let groups: [(&str, Vec<ExprRef>, Vec<Option<Type>>); 3] =
            [("output", sys.outputs.iter().map(|o| o.expr).collect(), outs), ("bad", sys.bad_states.clone(), bads), ("constraint", sys.constraints.clone(), cons)];
        for (what, exprs, decl) in groups {
            if exprs.len() != decl.len() {
                continue; // text could not be read leniently the same way; not judged
            }
            for (k, (e, d)) in exprs.iter().zip(decl.iter()).enumerate() {
                if let Some(d) = d {
                    sh.count("root_widths_checked", 1);
                    if e.get_type(ctx) != *d {
                        fail(sh, format!("C18|declared-width|{what}"), format!("{what} {k} has type {} but the referenced line declared {}", e.get_type(ctx), d));
                        return;
                    }
                }
            }
        }
        // every symbol is a declared input or state
        let declared: FxHashSet<ExprRef> = sys.inputs.iter().copied().chain(sys.states.iter().map(|s| s.symbol)).collect();
        for s in r2::symbols_of(ctx, &roots) {
            if !declared.contains(&s) {
                fail(sh, "C18|undeclared-symbol".into(), format!("symbol {} is used but is neither an input nor a state", r2::render(ctx, s)));
                return;
            }
        }
        sh.count("accepted_systems_fully_checked", 1);
    }
}

impl Check for C18 {
    fn id(&self) -> &'static str {
        "C18"
    }
    fn work(&self, tier: Tier) -> Vec<WorkItem> {
        vec![WorkItem { mode: "directed", count: DIRECTED.len() as u64 }, WorkItem { mode: "mut", count: tier.pick(300_000, 20_000_000) }, WorkItem { mode: "consts", count: CONST_WIDTHS.len() as u64 * 3 }]
    }
    fn evaluations_counter(&self) -> &'static str {
        "texts"
    }
    fn rule(&self) -> String {
        "G3(b): 1-4 random mutations (delete/duplicate/swap/move lines, drop/insert/duplicate tokens, sign flips, nudged and special numbers (0, 2^32+-1, 2^63, 2^64, 20 digits), other ids of the file, operator names, junk/unicode/control tokens, byte flips, tabs, CR, truncation, inserted array-sort and random lines) applied to freshly generated well-formed files (2/3) and to the corpus files <= 12 kB (1/3); widths are capped at 65536 so that memory exhaustion is not mistaken for a crash. Each mutant goes through parse_str under catch_unwind (aborts are attributed through the shard journal); accepted systems are deep-type-checked node by node, init/next types compared with their state, output/bad/constraint types compared with the sort declared on the referenced line (lenient re-read of the text), symbols checked against inputs+states. Panics on lines whose operator is in the documented unsupported set are excused. Mode consts: a systematic sweep of constant lines - 38 widths on both sides of every word boundary up to 320 bits (and 512, 1000) x const/constd/consth x digit counts 1..6 and from three below to 24 and more above what the width can hold x digit patterns x optional sign / leading 0 / leading 1 - through the same oracle (no panic; an accepted constant has the declared width). distinct_nontrivial = distinct mutated texts.".into()
    }
    fn assumptions(&self) -> Vec<String> {
        vec!["`bad`/`constraint` operands need not be 1 bit wide (the statement only says declared widths)".into()]
    }
    fn shard_begin(&self, sh: &mut Shard) {
        if !sh.verbose && !under_miri() {
            silence_stderr();
        }
    }
    fn miri_work(&self) -> Vec<WorkItem> {
        vec![WorkItem { mode: "miri", count: 64 }]
    }
    fn run_case(&self, sh: &mut Shard, case: &CaseId) {
        let mut rng = Rng::new(sh.case_seed());
        if case.mode == "miri" {
            // mutants of freshly generated files only; str_offset does pointer arithmetic on every reported error
            let base = gen_btor2(&mut rng).0;
            let (text, label) = mutate(&mut rng, &base);
            self.check_text(sh, &text, label);
            return;
        }
        if case.mode == "consts" {
            // systematic sweep of constant spellings: every width of CONST_WIDTHS x {const, constd, consth} x digit counts
            // from 1 to a good way past what the width can hold x several digit patterns (with and without sign)
            let w = CONST_WIDTHS[case.n as usize / 3];
            let (op, bits_per_digit, digits): (&str, f64, &[&str]) = match case.n % 3 {
                0 => ("const", 1.0, &["0", "1"]),
                1 => ("constd", 3.3219, &["0", "1", "9", "5"]),
                _ => ("consth", 4.0, &["0", "1", "f", "8", "F"]),
            };
            let exact = ((w as f64) / bits_per_digit).ceil() as usize;
            let mut lens: Vec<usize> = (1..=6).collect();
            lens.extend(exact.saturating_sub(3)..=exact + 24);
            lens.extend([exact + 32, exact + 64, 2 * exact + 1]);
            for len in lens {
                if len == 0 {
                    continue;
                }
                for d in digits {
                    for (lead, sign) in [("", ""), ("1", ""), ("", "-"), ("0", "")] {
                        let mut body = String::from(lead);
                        while body.len() < len {
                            body.push_str(d);
                        }
                        if op == "const" && (body.contains('9') || body.contains('f')) {
                            continue;
                        }
                        let text = format!("1 sort bitvec {w}\n2 {op} 1 {sign}{body}\n3 output 2 o\n");
                        sh.count("constant_spellings", 1);
                        self.check_text(sh, &text, "constant-spelling");
                    }
                }
            }
            return;
        }
        if case.mode == "directed" {
            if let Some((name, t)) = DIRECTED.get(case.n as usize) {
                self.check_text(sh, t, name);
            }
            return;
        }
        let base = if rng.chance(1, 3) { corpus_text(rng.next() as usize).unwrap_or_else(|| gen_btor2(&mut rng).0) } else { gen_btor2(&mut rng).0 };
        let (text, label) = mutate(&mut rng, &base);
        sh.hist("mutations", label);
        sh.distinct(util::hash_str(&text));
        if sh.verbose {
            use std::io::Write;
            println!("---- mutant ({label})\n{text}----");
            let _ = std::io::stdout().flush();
        }
        if sh.want_sample() && case.n % 97 == 0 {
            sh.sample(json!({"mutation": label, "text": util::trunc(&text, 1500)}));
        }
        self.check_text(sh, &text, label);
    }
    fn finalize(&self, m: &mut Merged, tier: Tier) {
        m.floor("accepted mutants fully checked", m.c("accepted_systems_fully_checked"), tier.pick(30_000, 2_000_000));
        m.floor("rejected mutants", m.c("rejected"), tier.pick(100_000, 6_000_000));
        m.floor("mutation kinds used", m.hist_len("mutations") as u64, 20);
        m.floor("constant spellings swept", m.c("constant_spellings"), 20_000);
    }
}

/// widths on both sides of every 64-bit word boundary up to 5 words, and a few others
const CONST_WIDTHS: &[u32] = &[1, 2, 3, 4, 5, 7, 8, 31, 32, 33, 63, 64, 65, 66, 67, 68, 127, 128, 129, 130, 131, 132, 133, 136, 191, 192, 193, 196, 255, 256, 257, 260, 319, 320, 321, 324, 512, 1000];

/// hand-written malformed inputs (regressions for repaired defects, witnesses of known findings)
const DIRECTED: &[(&str, &str)] = &[
    ("constd-with-a-multi-byte-character-in-a-long-digit-string", "1 sort bitvec 129\n2 constd 1 6\u{e9}0564733841876926926749214863536422911\n3 output 2 o\n"),
    ("array-of-array-sort", "1 sort bitvec 2\n2 sort array 1 1\n3 sort array 2 1\n"),
    ("const-without-value", "1 sort bitvec 4\n2 const 1\n"),
    ("slice-hi-lt-lo", "1 sort bitvec 4\n2 input 1\n3 sort bitvec 2\n4 slice 3 2 1 2\n"),
    ("redor-on-array", "1 sort bitvec 2\n2 sort array 1 1\n3 input 2\n4 sort bitvec 1\n5 redor 4 3\n"),
    ("read-on-bitvec", "1 sort bitvec 2\n2 input 1\n3 read 1 2 2\n"),
    ("bitvec-0", "1 sort bitvec 0\n2 zero 1\n"),
    ("not-on-array", "1 sort bitvec 2\n2 sort array 1 1\n3 input 2\n4 not 2 3\n"),
    ("negated-array-operand", "1 sort bitvec 2\n2 sort array 1 1\n3 input 2\n4 input 2\n5 sort bitvec 1\n6 eq 5 -3 4\n"),
    ("hex-constant-too-many-digits", "1 sort bitvec 129\n2 consth 1 1111111111111111111111111111111111111111111111111\n"),
    ("ite-array-condition", "1 sort bitvec 1\n2 sort array 1 1\n3 input 2\n4 input 1\n5 ite 1 3 4 4\n"),
    ("concat-array", "1 sort bitvec 1\n2 sort array 1 1\n3 input 2\n4 input 1\n5 sort bitvec 2\n6 concat 5 3 4\n"),
    ("uext-overflow", "1 sort bitvec 4294967295\n2 sort bitvec 3\n3 input 2\n4 uext 1 3 4294967295\n"),
    ("state-as-sort", "1 sort bitvec 1\n2 state 1\n3 state 2\n"),
    ("init-on-input", "1 sort bitvec 1\n2 input 1\n3 one 1\n4 init 1 2 3\n"),
    ("only-id", "7\n"),
    ("empty", ""),
    ("unicode", "1 sort bitvec 1\n2 input 1 ✔✖\n3 bad 2 ○\n"),
];

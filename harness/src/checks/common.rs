//! helpers shared by several checks

use crate::refsem::bv::{ArrV, Bv, Val};
use crate::refsem::expr_eval::{self as r2, Env, baa_from_bv, bv_from_baa};
use baa::{ArrayMutOps, ArrayOps, ArrayValue, BitVecOps, BitVecValue};
use num_bigint::BigUint;
use patronus::expr::{Context, ExprRef, SymbolValueStore};

pub fn baa_array_from(a: &ArrV, dense: bool) -> ArrayValue {
    let d = baa_from_bv(&Bv::new(a.dw, a.default.clone()));
    let mut out = if dense && a.iw <= 10 { ArrayValue::new_dense(a.iw, &d) } else { ArrayValue::new_sparse(a.iw, &d) };
    for (k, v) in a.map.iter() {
        let kk = baa_from_bv(&Bv::new(a.iw, k.clone()));
        let vv = baa_from_bv(&Bv::new(a.dw, v.clone()));
        out.store(&kk, &vv);
    }
    out
}

pub fn store_from_env(env: &Env, dense_arrays: bool) -> SymbolValueStore {
    let mut st = SymbolValueStore::default();
    // deterministic order
    let mut keys: Vec<&ExprRef> = env.keys().collect();
    keys.sort();
    for k in keys {
        match &env[k] {
            Val::B(b) => st.define_bv(*k, &baa_from_bv(b)),
            Val::A(a) => st.define_array(*k, baa_array_from(a, dense_arrays)),
        }
    }
    st
}

/// compare a baa array with a reference array; returns a description of the first difference
pub fn array_diff(got: &ArrayValue, want: &ArrV, extra_idx: &[BigUint]) -> Option<String> {
    if got.index_width() != want.iw || got.data_width() != want.dw {
        return Some(format!(
            "array type [{}->{}] but expected [{}->{}]",
            got.index_width(),
            got.data_width(),
            want.iw,
            want.dw
        ));
    }
    let check = |i: &BigUint| -> Option<String> {
        let ib = Bv::new(want.iw, i.clone());
        let g = got.select(&baa_from_bv(&ib));
        let w = want.select(&ib);
        if g.width() != w.w || bv_from_baa(&g) != w {
            Some(format!("at index {}: got {} expected {}", ib.show(), bv_from_baa(&g).show(), w.show()))
        } else if !r2::is_canonical(&g) {
            Some(format!("at index {}: non-canonical words {:x?}", ib.show(), g.words()))
        } else {
            None
        }
    };
    if want.iw <= 10 {
        for i in 0..(1u64 << want.iw) {
            if let Some(d) = check(&BigUint::from(i)) {
                return Some(d);
            }
        }
    } else {
        for k in want.map.keys().chain(extra_idx.iter()) {
            if let Some(d) = check(k) {
                return Some(d);
            }
        }
        if let Some(d) = check(&BigUint::from(0u32)) {
            return Some(d);
        }
    }
    None
}

pub fn show_env(ctx: &Context, env: &Env) -> String {
    let mut keys: Vec<&ExprRef> = env.keys().collect();
    keys.sort();
    let mut s = String::new();
    for k in keys {
        let name = ctx.get_symbol_name(*k).map(|x| x.to_string()).unwrap_or_else(|| format!("<{}>", r2::render(ctx, *k)));
        s.push_str(&format!("{}={} ", name, env[k].show()));
    }
    s
}

pub fn bvv(b: &BitVecValue) -> Bv {
    bv_from_baa(b)
}

pub fn type_str(t: patronus::expr::Type) -> String {
    format!("{t}")
}

//! C11 System-level transformations preserve behaviour

use super::c01::{StepEvent, install_observer, judge_simplification, remove_observer};
use super::common::*;
use crate::refsem::bv::{ArrV, Bv, Val};
use crate::refsem::expr_eval::{self as r2, Env};
use crate::refsem::sim::RefSim;
use crate::runner::*;
use crate::util::{self, Rng};
use crate::wl::expr::{judging_envs, random_env, s_type};
use crate::wl::sys::{SysCfg, describe, gen_system};
use patronus::expr::{Context, ExprRef, Type};
use patronus::system::TransitionSystem;
use patronus::system::transform::{replace_anonymous_inputs_with_zero, simplify_expressions};
use serde_json::json;

pub struct C11;

pub fn corpus_files() -> Vec<std::path::PathBuf> {
    fn walk(d: &std::path::Path, out: &mut Vec<std::path::PathBuf>) {
        if let Ok(rd) = std::fs::read_dir(d) {
            let mut es: Vec<_> = rd.flatten().map(|e| e.path()).collect();
            es.sort();
            for p in es {
                if p.is_dir() {
                    walk(&p, out);
                } else if p.extension().map(|x| x == "btor" || x == "btor2").unwrap_or(false) {
                    out.push(p);
                }
            }
        }
    }
    let mut v = vec![];
    walk(std::path::Path::new("/repo/inputs"), &mut v);
    v
}

/// (role, old expr, new expr) for every function of the system, matched by position
pub fn paired_roots(a: &TransitionSystem, b: &TransitionSystem) -> Result<Vec<(String, ExprRef, ExprRef)>, String> {
    if a.states.len() != b.states.len() {
        return Err(format!("number of states {} -> {}", a.states.len(), b.states.len()));
    }
    if a.outputs.len() != b.outputs.len() || a.bad_states.len() != b.bad_states.len() || a.constraints.len() != b.constraints.len() {
        return Err(format!(
            "outputs/bads/constraints {}/{}/{} -> {}/{}/{}",
            a.outputs.len(), a.bad_states.len(), a.constraints.len(), b.outputs.len(), b.bad_states.len(), b.constraints.len()
        ));
    }
    let mut v = vec![];
    for (k, (x, y)) in a.states.iter().zip(b.states.iter()).enumerate() {
        match (x.init, y.init) {
            (Some(p), Some(q)) => v.push((format!("init[{k}]"), p, q)),
            (None, None) => {}
            _ => return Err(format!("state {k}: init expression appeared or disappeared")),
        }
        match (x.next, y.next) {
            (Some(p), Some(q)) => v.push((format!("next[{k}]"), p, q)),
            (None, None) => {}
            _ => return Err(format!("state {k}: next expression appeared or disappeared")),
        }
    }
    for (k, (x, y)) in a.outputs.iter().zip(b.outputs.iter()).enumerate() {
        v.push((format!("output[{k}]"), x.expr, y.expr));
    }
    for (k, (x, y)) in a.bad_states.iter().zip(b.bad_states.iter()).enumerate() {
        v.push((format!("bad[{k}]"), *x, *y));
    }
    for (k, (x, y)) in a.constraints.iter().zip(b.constraints.iter()).enumerate() {
        v.push((format!("constraint[{k}]"), *x, *y));
    }
    Ok(v)
}

pub fn zero_val(t: Type) -> Val {
    match t {
        Type::BV(w) => Val::B(Bv::zero(w)),
        Type::Array(a) => Val::A(ArrV::constant(a.index_width, &Bv::zero(a.data_width))),
    }
}

/// lock-step reference simulation of two systems over the same state/input symbols
fn lockstep(ctx: &Context, a: &TransitionSystem, b: &TransitionSystem, rng: &mut Rng, forced_zero: &[ExprRef], steps: usize) -> Result<u64, String> {
    let mut sa = RefSim::new(ctx, a);
    let mut sb = RefSim::new(ctx, b);
    let syms: Vec<ExprRef> = a.states.iter().map(|s| s.symbol).chain(a.inputs.iter().copied()).collect();
    let mut free = random_env(rng, ctx, &syms);
    for z in forced_zero {
        free.insert(*z, zero_val(s_type(ctx, *z)));
    }
    sa.init(|s| free[&s].clone()).map_err(|e| e.0)?;
    sb.init(|s| free.get(&s).cloned().unwrap_or_else(|| zero_val(s_type(ctx, s)))).map_err(|e| e.0)?;
    let pairs = paired_roots(a, b)?;
    let mut compared = 0;
    for step in 0..steps {
        if step > 0 {
            let ins = random_env(rng, ctx, &a.inputs);
            for (k, v) in ins {
                let v = if forced_zero.contains(&k) { zero_val(s_type(ctx, k)) } else { v };
                sa.set(k, v.clone());
                if b.inputs.contains(&k) {
                    sb.set(k, v);
                }
            }
        }
        for (x, y) in a.states.iter().zip(b.states.iter()) {
            compared += 1;
            if sa.vals[&x.symbol] != sb.vals[&y.symbol] {
                return Err(format!("step {step}: state {} diverges: {} vs {}", r2::render(ctx, x.symbol), sa.vals[&x.symbol].show(), sb.vals[&y.symbol].show()));
            }
        }
        for (role, p, q) in pairs.iter() {
            if role.starts_with("init") || role.starts_with("next") {
                continue;
            }
            compared += 1;
            let (vp, vq) = (sa.get(*p).map_err(|e| e.0)?, sb.get(*q).map_err(|e| e.0)?);
            if vp != vq {
                return Err(format!("step {step}: {role} diverges: {} vs {}", vp.show(), vq.show()));
            }
        }
        sa.step().map_err(|e| e.0)?;
        sb.step().map_err(|e| e.0)?;
    }
    Ok(compared)
}

impl C11 {
    pub fn check_system(&self, sh: &mut Shard, ctx: &mut Context, sys: &TransitionSystem, rng: &mut Rng, label: &str, max_bits: u64, nsamples: usize) {
        // ---------------- simplify_expressions
        let mut simp = sys.clone();
        let log = install_observer(5_000_000);
        let r = util::catch(|| simplify_expressions(ctx, &mut simp));
        remove_observer();
        let events: Vec<StepEvent> = log.borrow().clone();
        sh.count("rewrite_events", events.len() as u64);
        match r {
            Err(p) if p.msg.contains("VERIF-STEP-LIMIT") || p.msg.contains("VERIF-CHAIN-LIMIT") => {
                // termination is C13's property; without a result there is nothing to judge here
                sh.inconclusive(format!("simplify_expressions did not terminate ({})\n{label}", p.msg));
            }
            Err(p) => {
                let known_mul = p.file.contains("baa") && p.msg.contains("multiplication");
                let sig = format!("C11|panic|simplify_expressions|{}{}", p.loc(), if known_mul { "|mul-wider-than-128" } else { "" });
                sh.violation(sig, format!("simplify_expressions panicked at {}: {}\n{label}", p.loc(), util::trunc(&p.msg, 200)), json!({}));
            }
            Ok(()) => {
                sh.count("systems_simplified", 1);
                let ok = self.compare(sh, ctx, sys, &simp, rng, "simplify_expressions", &[], &events, label, max_bits, nsamples);
                if ok {
                    match lockstep(ctx, sys, &simp, rng, &[], 20) {
                        Ok(n) => sh.count("lockstep_values_compared", n),
                        Err(d) => sh.violation("C11|lockstep|simplify_expressions", format!("{d}\n{label}"), json!({})),
                    }
                }
            }
        }
        // ---------------- replace_anonymous_inputs_with_zero
        let mut rep = sys.clone();
        let anon: Vec<ExprRef> = sys
            .inputs
            .iter()
            .copied()
            .filter(|i| {
                let n = ctx.get_symbol_name(*i).unwrap_or("");
                n.starts_with("_input_") || n.starts_with("_state_")
            })
            .collect();
        let r = util::catch(|| replace_anonymous_inputs_with_zero(ctx, &mut rep));
        match r {
            Err(p) => sh.violation(format!("C11|panic|replace_anonymous_inputs|{}", p.loc()), format!("panicked at {}: {}\n{label}", p.loc(), util::trunc(&p.msg, 200)), json!({})),
            Ok(()) => {
                sh.count("systems_zeroed", 1);
                if !anon.is_empty() {
                    sh.count("systems_with_anonymous_inputs", 1);
                }
                // inputs: exactly the named ones, in order
                let want_inputs: Vec<ExprRef> = sys.inputs.iter().copied().filter(|i| !anon.contains(i)).collect();
                if rep.inputs != want_inputs {
                    sh.violation("C11|replace|inputs-list", format!("inputs after the pass: {:?}, expected the non-anonymous inputs in order {:?}\n{label}", rep.inputs, want_inputs), json!({}));
                    return;
                }
                // no removed symbol may occur anywhere
                let mut roots: Vec<ExprRef> = crate::wl::sys::all_roots(&rep);
                roots.extend(rep.states.iter().map(|s| s.symbol));
                let still: Vec<ExprRef> = r2::symbols_of(ctx, &roots).into_iter().filter(|s| anon.contains(s)).collect();
                if !still.is_empty() {
                    sh.violation("C11|replace|removed-input-still-used", format!("removed input {} still occurs in the system\n{label}", r2::render(ctx, still[0])), json!({}));
                    return;
                }
                let ok = self.compare(sh, ctx, sys, &rep, rng, "replace_anonymous_inputs", &anon, &[], label, max_bits, nsamples);
                if ok {
                    match lockstep(ctx, sys, &rep, rng, &anon, 20) {
                        Ok(n) => sh.count("lockstep_values_compared", n),
                        Err(d) => sh.violation("C11|lockstep|replace_anonymous_inputs", format!("{d}\n{label}"), json!({})),
                    }
                }
            }
        }
    }

    #[allow(clippy::too_many_arguments)]
    fn compare(&self, sh: &mut Shard, ctx: &mut Context, a: &TransitionSystem, b: &TransitionSystem, rng: &mut Rng, pass: &str, forced_zero: &[ExprRef], events: &[StepEvent], label: &str, max_bits: u64, nsamples: usize) -> bool {
        // inputs / states
        if forced_zero.is_empty() && a.inputs != b.inputs {
            sh.violation(format!("C11|{pass}|inputs-changed"), format!("inputs {:?} -> {:?}\n{label}", a.inputs, b.inputs), json!({}));
            return false;
        }
        for (k, (x, y)) in a.states.iter().zip(b.states.iter()).enumerate() {
            if x.symbol != y.symbol {
                sh.violation(format!("C11|{pass}|state-symbol-changed"), format!("state {k}: {} -> {}\n{label}", r2::render(ctx, x.symbol), r2::render(ctx, y.symbol)), json!({}));
                return false;
            }
        }
        let pairs = match paired_roots(a, b) {
            Ok(p) => p,
            Err(d) => {
                sh.violation(format!("C11|{pass}|shape-changed"), format!("{d}\n{label}"), json!({}));
                return false;
            }
        };
        if forced_zero.is_empty() {
            // simplification: same machinery as C01, per-step events checked once
            let mut first = true;
            for (role, p, q) in pairs.iter() {
                sh.count("functions_compared", 1);
                if p == q {
                    sh.count("functions_identical_refs", 1);
                    if !first {
                        continue;
                    }
                }
                let ev: &[StepEvent] = if first { events } else { &[] };
                first = false;
                let before = sh.violations.len();
                judge_simplification("C11", sh, ctx, rng, *p, *q, ev, &format!("simplify_expressions {role}"), max_bits, nsamples);
                if sh.violations.len() > before {
                    return false;
                }
            }
            return true;
        }
        // zero substitution: old under (anon inputs = 0) == new
        let mut all: Vec<ExprRef> = vec![];
        for (_, p, q) in pairs.iter() {
            all.push(*p);
            all.push(*q);
        }
        let syms: Vec<ExprRef> = r2::symbols_of(ctx, &all).into_iter().filter(|s| !forced_zero.contains(s)).collect();
        let (envs, _ex) = judging_envs(rng, ctx, &syms, max_bits, nsamples);
        for env in envs {
            let mut env_a: Env = env.clone();
            for z in forced_zero {
                env_a.insert(*z, zero_val(s_type(ctx, *z)));
            }
            let mut ma = Env::default();
            let mut mb = Env::default();
            for (role, p, q) in pairs.iter() {
                sh.count("evaluations", 1);
                let va = r2::eval_memo(ctx, &env_a, &mut ma, *p);
                let vb = r2::eval_memo(ctx, &env, &mut mb, *q);
                match (va, vb) {
                    (Ok(x), Ok(y)) if x == y => {}
                    (Ok(x), Ok(y)) => {
                        sh.violation(
                            format!("C11|{pass}|value|{}", role.split('[').next().unwrap()),
                            format!("{role}: original with anonymous inputs at zero = {}, transformed = {}\nenv: {}\noriginal: {}\ntransformed: {}\n{label}", x.show(), y.show(), show_env(ctx, &env), r2::render(ctx, *p), r2::render(ctx, *q)),
                            json!({}),
                        );
                        return false;
                    }
                    (Err(e), _) | (_, Err(e)) => {
                        sh.violation(format!("C11|{pass}|unbound"), format!("{role}: {}\n{label}", e.0), json!({}));
                        return false;
                    }
                }
            }
        }
        true
    }
}

impl Check for C11 {
    fn id(&self) -> &'static str {
        "C11"
    }
    fn work(&self, tier: Tier) -> Vec<WorkItem> {
        vec![WorkItem { mode: "gen", count: tier.pick(12_000, 1_000_000) }, WorkItem { mode: "corpus", count: corpus_files().len() as u64 }]
    }
    fn evaluations_counter(&self) -> &'static str {
        "evaluations"
    }
    fn rule(&self) -> String {
        "mode gen: G2 systems (<=4 states incl. arrays, <=3 inputs incl. anonymous `_input_N` bit-vector and array inputs, shared sub-terms between init/next/bad/constraint/output roots, named inner nodes, states that are also outputs); mode corpus: the btor2 files under /repo/inputs (files > 150 kB only in the thorough tier). Each system goes through simplify_expressions (H2 observer installed: every rewrite step + every function before/after judged by the reference evaluator, exhaustively when the symbols have <= 14 bits, else on 32 corner/correlated assignments) and replace_anonymous_inputs_with_zero (inputs list, absence of removed symbols in every root, functions equal to the original with those inputs at zero), followed by a 20-step lock-step run of both systems in the reference simulator under identical stimulus. distinct_nontrivial = distinct systems (by textual description) that went through both passes and all comparisons.".into()
    }
    fn assumptions(&self) -> Vec<String> {
        vec!["equivalence by evaluation (exhaustive for the generated systems' 14 symbol bits, sampled for corpus designs)".into()]
    }
    fn run_case(&self, sh: &mut Shard, case: &CaseId) {
        let mut rng = Rng::new(sh.case_seed());
        if case.mode == "corpus" {
            let files = corpus_files();
            let Some(f) = files.get(case.n as usize) else { return };
            let size = std::fs::metadata(f).map(|m| m.len()).unwrap_or(0);
            if size > 150_000 && sh.tier == Tier::Quick {
                sh.count("corpus_files_skipped_large", 1);
                return;
            }
            let Ok(text) = std::fs::read_to_string(f) else { return };
            let mut ctx = Context::default();
            let name = f.file_name().unwrap().to_string_lossy().to_string();
            let parsed = util::catch(|| patronus::btor2::parse_str(&mut ctx, &text, Some(&name)));
            let Ok(Some(sys)) = parsed else {
                sh.count("corpus_files_not_parsed", 1);
                return;
            };
            sh.count("corpus_files", 1);
            let before = sh.violations.len();
            self.check_system(sh, &mut ctx, &sys, &mut rng, &format!("corpus file {}", f.display()), 12, if size > 150_000 { 4 } else { 16 });
            if sh.violations.len() == before {
                sh.distinct(util::hash_str(&name));
            }
            return;
        }
        let mut ctx = Context::default();
        let mut cfg = SysCfg::default();
        cfg.array_inputs = true;
        cfg.init_reads_inputs = rng.chance(1, 4);
        let gs = gen_system(&mut rng, &mut ctx, &cfg, "");
        let mut sys = gs.sys;
        // a state that is at once an output
        if rng.chance(1, 3) {
            let s = rng.pick(&sys.states).symbol;
            sys.add_output(&mut ctx, "state_as_output".into(), s);
        }
        let label = describe(&ctx, &sys);
        let nv = sh.violations.len();
        self.check_system(sh, &mut ctx, &sys, &mut rng, &label, 14, 32);
        if sh.violations.len() == nv {
            sh.distinct(util::hash_str(&label));
        }
        if sh.want_sample() {
            sh.sample(json!({"system": label}));
        }
    }
    fn finalize(&self, m: &mut Merged, tier: Tier) {
        m.floor("systems simplified", m.c("systems_simplified"), tier.pick(12_000, 1_000_000));
        m.floor("systems with anonymous inputs", m.c("systems_with_anonymous_inputs"), tier.pick(2_500, 200_000));
        m.floor("corpus files processed", m.c("corpus_files"), tier.pick(90, 110));
    }
}

//! C09 btor2 write -> read preserves the system

use super::c08::silence_stderr;
use super::c11::corpus_files;
use super::common::show_env;
use crate::refsem::bv::Val;
use crate::refsem::expr_eval::{self as r2, Env};
use crate::refsem::sim::RefSim;
use crate::runner::*;
use crate::util::{self, Rng};
use crate::wl::expr::{judging_envs, random_env, s_type};
use crate::wl::sys::{SysCfg, describe, gen_system};
use patronus::expr::{Context, ExprRef};
use patronus::system::TransitionSystem;
use serde_json::json;

pub struct C09;

fn write(ctx: &Context, sys: &TransitionSystem) -> Result<Result<String, String>, util::PanicInfo> {
    util::catch(|| {
        let mut buf = Vec::new();
        match patronus::btor2::serialize(ctx, &mut buf, sys) {
            Ok(()) => Ok(String::from_utf8(buf).expect("utf8")),
            Err(e) => Err(e.to_string()),
        }
    })
}

/// inputs as the reader will see them: declared inputs, then states with neither init nor next
fn effective_inputs(sys: &TransitionSystem) -> Vec<ExprRef> {
    let mut v = sys.inputs.clone();
    v.extend(sys.states.iter().filter(|s| s.init.is_none() && s.next.is_none()).map(|s| s.symbol));
    v
}

fn effective_states(sys: &TransitionSystem) -> Vec<patronus::system::State> {
    sys.states.iter().filter(|s| s.init.is_some() || s.next.is_some()).copied().collect()
}

fn is_autogen(name: &str) -> bool {
    for p in ["_input", "_state", "_output", "_bad", "_constraint"] {
        if name == p {
            return true;
        }
        if let Some(rest) = name.strip_prefix(p) {
            if let Some(d) = rest.strip_prefix('_') {
                if !d.is_empty() && d.chars().all(|c| c.is_ascii_digit()) {
                    return true;
                }
            }
        }
    }
    false
}

impl C09 {
    /// compares `a` with its re-read `b`; returns false after reporting a violation
    fn compare(&self, sh: &mut Shard, ctx: &Context, a: &TransitionSystem, b: &TransitionSystem, rng: &mut Rng, text: &str, label: &str, max_bits: u64, nsamples: usize) -> bool {
        let fail = |sh: &mut Shard, sig: &str, d: String| {
            sh.violation(format!("C09|{sig}"), format!("{d}\n--- original\n{label}\n--- written text\n{}", util::trunc(text, 5000)), json!({}));
        };
        let (ia, ib) = (effective_inputs(a), b.inputs.clone());
        let (sa, sb) = (effective_states(a), effective_states(b));
        if ia.len() != ib.len() || sa.len() != sb.len() || effective_inputs(b).len() != ib.len() {
            fail(sh, "count-inputs-states", format!("inputs {} -> {}, states {} -> {}", ia.len(), ib.len(), sa.len(), sb.len()));
            return false;
        }
        if a.outputs.len() != b.outputs.len() || a.bad_states.len() != b.bad_states.len() || a.constraints.len() != b.constraints.len() {
            fail(sh, "count-roots", format!("outputs/bads/constraints {}/{}/{} -> {}/{}/{}", a.outputs.len(), a.bad_states.len(), a.constraints.len(), b.outputs.len(), b.bad_states.len(), b.constraints.len()));
            return false;
        }
        // positional symbol map b -> a
        let mut pairs: Vec<(ExprRef, ExprRef)> = vec![];
        for (k, (x, y)) in ia.iter().zip(ib.iter()).enumerate() {
            if s_type(ctx, *x) != s_type(ctx, *y) {
                fail(sh, "input-type", format!("input {k}: {} -> {}", r2::render(ctx, *x), r2::render(ctx, *y)));
                return false;
            }
            pairs.push((*x, *y));
        }
        for (k, (x, y)) in sa.iter().zip(sb.iter()).enumerate() {
            if s_type(ctx, x.symbol) != s_type(ctx, y.symbol) {
                fail(sh, "state-type", format!("state {k}: {} -> {}", r2::render(ctx, x.symbol), r2::render(ctx, y.symbol)));
                return false;
            }
            if x.init.is_some() != y.init.is_some() || x.next.is_some() != y.next.is_some() {
                fail(sh, "init-next-presence", format!("state {k}: init {} -> {}, next {} -> {}", x.init.is_some(), y.init.is_some(), x.next.is_some(), y.next.is_some()));
                return false;
            }
            pairs.push((x.symbol, y.symbol));
        }
        // functions
        let mut funcs: Vec<(String, ExprRef, ExprRef)> = vec![];
        for (k, (x, y)) in sa.iter().zip(sb.iter()).enumerate() {
            if let (Some(p), Some(q)) = (x.init, y.init) {
                funcs.push((format!("init[{k}]"), p, q));
            }
            if let (Some(p), Some(q)) = (x.next, y.next) {
                funcs.push((format!("next[{k}]"), p, q));
            }
        }
        for (k, (x, y)) in a.outputs.iter().zip(b.outputs.iter()).enumerate() {
            funcs.push((format!("output[{k}]"), x.expr, y.expr));
        }
        for (k, (x, y)) in a.bad_states.iter().zip(b.bad_states.iter()).enumerate() {
            funcs.push((format!("bad[{k}]"), *x, *y));
        }
        for (k, (x, y)) in a.constraints.iter().zip(b.constraints.iter()).enumerate() {
            funcs.push((format!("constraint[{k}]"), *x, *y));
        }
        let identical_syms = pairs.iter().all(|(x, y)| x == y);
        let all_identical = identical_syms && funcs.iter().all(|(_, p, q)| p == q);
        sh.count("functions_compared", funcs.len() as u64);
        if all_identical {
            sh.count("systems_identical_refs", 1);
            return true;
        }
        sh.count("systems_compared_by_evaluation", 1);
        let syms_a: Vec<ExprRef> = pairs.iter().map(|p| p.0).collect();
        let (envs, _) = judging_envs(rng, ctx, &syms_a, max_bits, nsamples);
        for env in envs.iter() {
            let mut env_b = Env::default();
            for (x, y) in pairs.iter() {
                env_b.insert(*y, env[x].clone());
            }
            let (mut ma, mut mb) = (Env::default(), Env::default());
            for (role, p, q) in funcs.iter() {
                if identical_syms && p == q {
                    continue;
                }
                sh.count("evaluations", 1);
                match (r2::eval_memo(ctx, env, &mut ma, *p), r2::eval_memo(ctx, &env_b, &mut mb, *q)) {
                    (Ok(x), Ok(y)) if x == y => {}
                    (Ok(x), Ok(y)) => {
                        fail(
                            sh,
                            &format!("value|{}|{}", role.split('[').next().unwrap(), r2::op_name(&ctx[*p])),
                            format!("{role}: original {} re-read {}\nenv: {}\noriginal function: {}\nre-read function: {}", x.show(), y.show(), show_env(ctx, env), util::trunc(&r2::render(ctx, *p), 500), util::trunc(&r2::render(ctx, *q), 500)),
                        );
                        return false;
                    }
                    (Err(e), _) | (_, Err(e)) => {
                        fail(sh, "unbound-symbol", format!("{role}: {}", e.0));
                        return false;
                    }
                }
            }
        }
        // lock-step simulation under the same positional stimulus
        let mut ra = RefSim::new(ctx, a);
        let mut rb = RefSim::new(ctx, b);
        let all_a: Vec<ExprRef> = a.states.iter().map(|s| s.symbol).chain(a.inputs.iter().copied()).collect();
        let free = random_env(rng, ctx, &all_a);
        let b2a: rustc_hash::FxHashMap<ExprRef, ExprRef> = pairs.iter().map(|(x, y)| (*y, *x)).collect();
        if ra.init(|s| free[&s].clone()).is_err() || rb.init(|s| free[&b2a[&s]].clone()).is_err() {
            fail(sh, "lockstep-init", "reference simulation could not be initialised".into());
            return false;
        }
        for step in 0..20 {
            if step > 0 {
                let ins = random_env(rng, ctx, &ia);
                for (x, y) in ia.iter().zip(ib.iter()) {
                    ra.set(*x, ins[x].clone());
                    rb.set(*y, ins[x].clone());
                }
            }
            for (role, p, q) in funcs.iter() {
                if role.starts_with("init") || role.starts_with("next") {
                    continue;
                }
                sh.count("lockstep_values_compared", 1);
                let (vp, vq): (Result<Val, _>, Result<Val, _>) = (ra.get(*p), rb.get(*q));
                if let (Ok(x), Ok(y)) = (vp, vq) {
                    if x != y {
                        fail(sh, "lockstep", format!("step {step}: {role} {} vs {}", x.show(), y.show()));
                        return false;
                    }
                }
            }
            let _ = ra.step();
            let _ = rb.step();
        }
        true
    }

    fn names_of(ctx: &Context, sys: &TransitionSystem) -> Vec<String> {
        let mut v: Vec<String> = vec![];
        v.extend(sys.inputs.iter().map(|i| format!("input:{}", ctx.get_symbol_name(*i).unwrap_or("?"))));
        v.extend(sys.states.iter().map(|s| format!("state:{}", ctx.get_symbol_name(s.symbol).unwrap_or("?"))));
        v.extend(sys.outputs.iter().map(|o| format!("output:{}", ctx[o.name])));
        v
    }

    pub fn roundtrip(&self, sh: &mut Shard, ctx: &mut Context, sys: &TransitionSystem, rng: &mut Rng, label: &str, max_bits: u64, nsamples: usize) {
        let text = match write(ctx, sys) {
            Err(p) => {
                sh.violation(format!("C09|writer-panic|{}", p.loc()), format!("serialize panicked at {}: {}\n{label}", p.loc(), util::trunc(&p.msg, 300)), json!({}));
                return;
            }
            Ok(Err(e)) => {
                sh.count("writer_rejected", 1);
                sh.hist("writer_rejections", &util::trunc(&e, 60));
                return;
            }
            Ok(Ok(t)) => t,
        };
        sh.count("systems_written", 1);
        let sys2 = match util::catch(|| patronus::btor2::parse_str(ctx, &text, Some("rt"))) {
            Err(p) => {
                sh.violation(format!("C09|reader-panic|{}", p.loc()), format!("reading the written text panicked at {}: {}\n{label}\n--- written text\n{}", p.loc(), util::trunc(&p.msg, 300), util::trunc(&text, 5000)), json!({}));
                return;
            }
            Ok(None) => {
                sh.violation("C09|reread-rejected", format!("the written text is rejected by the reader\n{label}\n--- written text\n{}", util::trunc(&text, 5000)), json!({}));
                return;
            }
            Ok(Some(s)) => s,
        };
        if !self.compare(sh, ctx, sys, &sys2, rng, &text, label, max_bits, nsamples) {
            return;
        }
        sh.count("roundtrips_ok", 1);
        // names: explicit + distinct names of a *parsed* system survive a further cycle
        self.name_cycle(sh, ctx, &sys2, &text);
        // the same with the registers and memories named the way yosys does it (anonymous state line + named
        // `uext <sort> <state> 0` line): again a parsed system with explicit names
        if rng.chance(1, 2) {
            let ytext = yosysify(&text);
            if ytext != text {
                if let Ok(Some(sys_y)) = util::catch(|| patronus::btor2::parse_str(ctx, &ytext, Some("ys"))) {
                    sh.count("systems_with_yosys_style_state_names", 1);
                    self.name_cycle(sh, ctx, &sys_y, &ytext);
                }
            }
        }
        // the same for ordinary names that end in a word the reader uses for the names it invents:
        // the names are put into the written text, so that the system that carries them is a parsed one
        if rng.chance(1, 2) {
            let sfx = *rng.pick(&["_state", "_input", "_state_1", "_input_12", "_output", "_bad_0", "_constraint", "_output_3", ".c_state", "_bad", "_constraint_7"]);
            // (or, one time in three, hierarchical names the way synthesis tools write them: a `$flatten\` prefix, or a
            // long path with `/` and `:`)
            let (pfx, sfx) = match rng.below(6) {
                0 => ("$flatten\\top.\\", ""),
                1 => ("top/u_core/u_alu:", "_with_a_rather_long_hierarchical_name"),
                _ => ("", sfx),
            };
            let renamed = rename_in_text(&text, pfx, sfx);
            if renamed != text {
                if let Ok(Some(sys_r)) = util::catch(|| patronus::btor2::parse_str(ctx, &renamed, Some("rn"))) {
                    sh.count("systems_renamed_with_reserved_word_suffix", 1);
                    self.name_cycle(sh, ctx, &sys_r, &renamed);
                }
            }
        }
    }

    /// `sys2` was read from `text`; if all its names are explicit and distinct they must survive write + read
    pub fn name_cycle(&self, sh: &mut Shard, ctx: &mut Context, sys2: &TransitionSystem, text: &str) {
        let sys2 = sys2.clone();
        let n2 = Self::names_of(ctx, &sys2);
        let explicit = n2.iter().all(|n| !is_autogen(n.split(':').nth(1).unwrap_or("")));
        let mut dd: Vec<&str> = n2.iter().map(|n| n.split(':').nth(1).unwrap_or("")).collect();
        dd.sort();
        let distinct = dd.windows(2).all(|w| w[0] != w[1]);
        if explicit && distinct {
            let Ok(Ok(text2)) = write(ctx, &sys2) else { return };
            let Ok(Some(sys3)) = util::catch(|| patronus::btor2::parse_str(ctx, &text2, Some("rt2"))) else {
                sh.violation("C09|second-cycle-rejected", format!("second write/read cycle failed\n{}", util::trunc(&text2, 5000)), json!({}));
                return;
            };
            sh.count("name_cycles_checked", 1);
            let n3 = Self::names_of(ctx, &sys3);
            if n2 != n3 {
                // which name was lost, and is that symbol directly referenced by a label line?
                let mut disc = String::from("other");
                if n2.len() == n3.len() {
                    let changed: Vec<usize> = (0..n2.len()).filter(|i| n2[*i] != n3[*i]).collect();
                    let direct: Vec<ExprRef> = sys2.outputs.iter().map(|o| o.expr).chain(sys2.bad_states.iter().copied()).chain(sys2.constraints.iter().copied()).collect();
                    let ni = sys2.inputs.len();
                    let ns = sys2.states.len();
                    let nrefs = |e: ExprRef| sys2.bad_states.iter().chain(sys2.constraints.iter()).filter(|x| **x == e).count();
                    // every changed name is classified on its own: one system can show several causes at once
                    let classes: std::collections::BTreeSet<String> = changed
                        .iter()
                        .map(|i| {
                            if *i < ni && direct.contains(&sys2.inputs[*i]) && is_autogen(n3[*i].split(':').nth(1).unwrap_or("")) {
                                "input-directly-referenced-by-label".to_string()
                            } else if *i >= ni && *i < ni + ns && nrefs(sys2.states[*i - ni].symbol) >= 2 {
                                "state-directly-referenced-by-several-bad-or-constraint-lines".to_string()
                            } else {
                                n2[*i].split(':').next().unwrap_or("?").to_string()
                            }
                        })
                        .collect();
                    if classes.iter().all(|c| c.contains("-directly-referenced-")) {
                        let detail = format!("names after first read: {:?}\nnames after a further write/read: {:?}\n--- text of the first cycle\n{}\n--- text of the second cycle\n{}", n2, n3, util::trunc(&text, 4000), util::trunc(&text2, 4000));
                        for c in classes {
                            sh.violation(format!("C09|names-not-stable|{c}"), detail.clone(), json!({}));
                        }
                        return;
                    }
                    disc = classes.into_iter().collect::<Vec<_>>().join("+");
                }
                sh.violation(
                    format!("C09|names-not-stable|{disc}"),
                    format!("names after first read: {:?}\nnames after a further write/read: {:?}\n--- text of the first cycle\n{}\n--- text of the second cycle\n{}", n2, n3, util::trunc(&text, 4000), util::trunc(&text2, 4000)),
                    json!({}),
                );
            }
        }
    }
}

/// the way yosys names registers and memories: the `state` line is anonymous and a later line
/// `<id> uext <sort> <state> 0 <name>` carries the name
fn yosysify(text: &str) -> String {
    let mut out = String::new();
    let mut aliases: Vec<(String, String, String)> = vec![];
    let mut max_id = 0u64;
    for line in text.lines() {
        let t: Vec<&str> = line.split_whitespace().collect();
        if let Some(id) = t.first().and_then(|x| x.parse::<u64>().ok()) {
            max_id = max_id.max(id);
        }
        if t.len() == 4 && t[1] == "state" && !t[3].starts_with(';') {
            aliases.push((t[0].to_string(), t[2].to_string(), t[3].to_string()));
            out.push_str(&format!("{} state {}\n", t[0], t[2]));
        } else {
            out.push_str(line);
            out.push('\n');
        }
    }
    for (k, (st, sort, name)) in aliases.iter().enumerate() {
        out.push_str(&format!("{} uext {} {} 0 {}\n", max_id + 1 + k as u64, sort, st, name));
    }
    out
}

/// appends `sfx` to the name on every input/state/output line that has one
fn rename_in_text(text: &str, pfx: &str, sfx: &str) -> String {
    let mut out = String::new();
    for line in text.lines() {
        let t: Vec<&str> = line.split_whitespace().collect();
        if t.len() == 4 && matches!(t[1], "input" | "state" | "output") && !t[3].starts_with(';') {
            out.push_str(&format!("{} {} {} {}{}{}\n", t[0], t[1], t[2], pfx, t[3], sfx));
        } else {
            out.push_str(line);
            out.push('\n');
        }
    }
    out
}

impl Check for C09 {
    fn id(&self) -> &'static str {
        "C09"
    }
    fn work(&self, tier: Tier) -> Vec<WorkItem> {
        vec![WorkItem { mode: "gen", count: tier.pick(30_000, 2_000_000) }, WorkItem { mode: "corpus", count: corpus_files().len() as u64 }]
    }
    fn evaluations_counter(&self) -> &'static str {
        "functions_compared"
    }
    fn rule(&self) -> String {
        "mode gen: G2 systems (array states initialised by constants or by expressions over earlier states, const states, free states, states with neither init nor next, outputs aliasing states, named inner nodes, anonymous inputs, literals of every shape incl. widths 63-65 and 127-129 in a third of the systems); mode corpus: the 116 btor2 files under /repo/inputs (parse, then write, then read). Each system the writer accepts is written with btor2::serialize and read back into the same context; inputs (followed by demoted states), states, outputs, bads, constraints are matched by position and type; functions are compared by reference, else by the reference evaluator under positionally translated assignments (all assignments when <= 14 symbol bits, else 64 corner/correlated ones) and a 20-step lock-step reference simulation. For re-read systems (and for the shipped files as parsed) with explicit distinct names a further write/read cycle must keep all input/state/output names; in half of the cases the written text is additionally re-read with every name extended by a word the reader uses for its own invented names (`_state`, `_input_12`, `_bad_0`, `.c_state`, ...) and cycled again; in half of the cases also with the state names moved from the `state` lines to yosys-style alias lines (`uext <sort> <state> 0 <name>`, bit-vector and array states). distinct_nontrivial = distinct systems that were written and re-read.".into()
    }
    fn assumptions(&self) -> Vec<String> {
        vec!["init expressions only read earlier states (the writer emits init trees before the state declaration)".into(), "systems the writer rejects (array constants outside init) are counted and skipped".into()]
    }
    fn shard_begin(&self, sh: &mut Shard) {
        if !sh.verbose {
            silence_stderr();
        }
    }
    fn run_case(&self, sh: &mut Shard, case: &CaseId) {
        let mut rng = Rng::new(sh.case_seed());
        let mut ctx = Context::default();
        if case.mode == "corpus" {
            let files = corpus_files();
            let Some(f) = files.get(case.n as usize) else { return };
            let Ok(text) = std::fs::read_to_string(f) else { return };
            let name = f.file_name().unwrap().to_string_lossy().to_string();
            let Ok(Some(sys)) = util::catch(|| patronus::btor2::parse_str(&mut ctx, &text, Some(&name))) else { return };
            sh.count("corpus_files", 1);
            sh.distinct(util::hash_str(&name));
            self.roundtrip(sh, &mut ctx, &sys, &mut rng, &format!("corpus file {}", f.display()), 12, 8);
            // the shipped file's own names (the system is a parsed one)
            self.name_cycle(sh, &mut ctx, &sys, &text);
            return;
        }
        let mut cfg = SysCfg::default();
        cfg.nextless_states = true;
        cfg.array_const_only_in_init = rng.chance(9, 10);
        cfg.array_inputs = rng.chance(1, 3);
        cfg.init_reads_inputs = rng.chance(1, 4);
        if rng.chance(1, 3) {
            cfg.max_bv_width = *rng.pick(&[33u32, 65, 129]);
            cfg.max_state_bits = 300;
            cfg.max_input_bits = 200;
        }
        // ordinary names that merely end in (or contain) a word the reader uses for names it invents
        cfg.name_suffix = rng.pick(&["", "", "", "_state", "_input", "_state_1", "_input_12", "_output", "_bad_0", "_constraint", "_output_3", ".c_state"]).to_string();
        let name_prefix = *rng.pick(&["", "", "", "_", "x_state_", "_input"]);
        if !cfg.name_suffix.is_empty() {
            sh.count("systems_with_reserved_word_name_suffix", 1);
        }
        let gs = gen_system(&mut rng, &mut ctx, &cfg, name_prefix);
        let mut sys = gs.sys;
        if rng.chance(1, 3) {
            // a label that aliases a state
            let s = rng.pick(&sys.states).symbol;
            sys.add_output(&mut ctx, "alias_of_state".into(), s);
        }
        let label = describe(&ctx, &sys);
        let before = sh.violations.len();
        self.roundtrip(sh, &mut ctx, &sys, &mut rng, &label, 14, 64);
        if sh.violations.len() == before {
            sh.distinct(util::hash_str(&label));
        }
        if sh.want_sample() {
            sh.sample(json!({"system": label}));
        }
    }
    fn finalize(&self, m: &mut Merged, tier: Tier) {
        m.floor("systems written and re-read without difference", m.c("roundtrips_ok"), tier.pick(20_000, 1_500_000));
        m.floor("systems compared by evaluation (not identical references)", m.c("systems_compared_by_evaluation"), tier.pick(50, 2_000));
        m.floor("second-cycle name checks", m.c("name_cycles_checked"), tier.pick(5_000, 500_000));
        m.floor("corpus files", m.c("corpus_files"), 110);
    }
}

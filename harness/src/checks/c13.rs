//! C13 Simplification terminates, is idempotent and cache-transparent

use super::c01::{install_observer, remove_observer};
use crate::refsem::expr_eval as r2;
use crate::runner::*;
use crate::util::{self, Rng};
use crate::wl::expr::{ExprGen, GenCfg};
use crate::wl::sysenum;
use patronus::expr::{Context, DenseExprMetaData, ExprRef, Simplifier, SparseExprMap};
use serde_json::json;
use std::cell::RefCell;

pub struct C13;

const STEP_LIMIT: usize = 1_000_000;

/// number of expressions interned in the context (found by probing: references are dense indices)
fn ctx_size(ctx: &mut Context) -> usize {
    let probe = ctx.bv_symbol("verif size probe", 1);
    usize::from(probe)
}

enum Out {
    Ok(ExprRef),
    Violation,
}

/// one top-level simplify call with the step counter armed
fn call<T: patronus::expr::ExprMap<Option<ExprRef>>>(sh: &mut Shard, ctx: &mut Context, simp: &mut Simplifier<T>, e: ExprRef, what: &str) -> Out {
    let log = install_observer(STEP_LIMIT);
    let r = util::catch(|| simp.simplify(ctx, e));
    remove_observer();
    let steps = log.borrow().len();
    sh.count("rewrite_events", steps as u64);
    sh.count("simplify_calls", 1);
    sh.hist("events_per_call_log2", &format!("{:02}", (steps as u64 + 1).ilog2()));
    match r {
        Ok(s) => Out::Ok(s),
        Err(p) => {
            if p.msg.contains("VERIF-STEP-LIMIT") {
                let nodes = r2::post_order(ctx, &[e]).len();
                sh.violation(
                    format!("C13|no-termination|{}", r2::op_name(&ctx[e])),
                    format!("more than {STEP_LIMIT} rewrite steps in one simplify call ({what}) on a DAG of {nodes} nodes\ninput: {}", util::trunc(&r2::render(ctx, e), 1500)),
                    json!({}),
                );
            } else if p.msg.contains("VERIF-CHAIN-LIMIT") {
                // the rewrite cache holds a cycle: the search for the end of a chain of cache entries never ends
                sh.violation(
                    "C13|no-termination|cache-cycle".to_string(),
                    format!(
                        "one simplify call ({what}) followed more than {} cache links while looking for a fixed point: the cache contains a cycle (a context of {} expressions cannot hold an acyclic chain of that length), so the call never returns\ninput: {}",
                        super::c01::CHAIN_LIMIT,
                        ctx_size(ctx),
                        util::trunc(&r2::render(ctx, e), 1500)
                    ),
                    json!({}),
                );
            } else {
                // root cause first: did an earlier rewrite step intern a literal with bits above its width?
                // (the known shift_left defect of the value library; later rules then misbehave on it)
                let dirty = log.borrow().iter().find_map(|ev| {
                    let r = ev.result?;
                    if let patronus::expr::Expr::BVLiteral(v) = &ctx[r] {
                        if !r2::is_canonical(&v.get(ctx)) {
                            return Some(r2::op_name(&ctx[ev.expr]));
                        }
                    }
                    None
                });
                if let Some(op) = dirty {
                    // same root defect as the known finding recorded (with a witness) under C01 / C06 / C12;
                    // what the simplifier does afterwards says nothing about termination or repeatability
                    let _ = op;
                    sh.count("calls_hitting_the_known_noncanonical_literal_defect", 1);
                } else {
                    sh.panic_violation(what, &p, format!("input: {}", util::trunc(&r2::render(ctx, e), 1500)));
                }
            }
            Out::Violation
        }
    }
}

macro_rules! get {
    ($x:expr) => {
        match $x {
            Out::Ok(v) => v,
            Out::Violation => return,
        }
    };
}

impl C13 {
    fn batch(&self, sh: &mut Shard, ctx: &mut Context, rng: &mut Rng, batch: &[ExprRef]) {
        let n = batch.len();
        // (1) fresh simplifier per expression; idempotence with a fresh and with the same instance
        let mut fresh: Vec<ExprRef> = vec![];
        for &e in batch {
            let mut s1 = Simplifier::new(SparseExprMap::default());
            let r = get!(call(sh, ctx, &mut s1, e, "fresh sparse"));
            let rr_same = get!(call(sh, ctx, &mut s1, r, "same instance, second pass"));
            let mut s2 = Simplifier::new(DenseExprMetaData::default());
            let rr_fresh = get!(call(sh, ctx, &mut s2, r, "fresh dense, second pass"));
            sh.count("idempotence_checks", 2);
            if rr_same != r || rr_fresh != r {
                let which = if rr_same != r { "same-instance" } else { "fresh-instance" };
                let other = if rr_same != r { rr_same } else { rr_fresh };
                sh.violation(
                    format!("C13|not-idempotent|{which}|{}", r2::op_name(&ctx[e])),
                    format!("input: {}\nsimplify(input): {}\nsimplify(simplify(input)): {}", r2::render(ctx, e), r2::render(ctx, r), r2::render(ctx, other)),
                    json!({}),
                );
                return;
            }
            if r != e {
                sh.distinct(util::hash_str(&r2::render(ctx, e)));
            }
            fresh.push(r);
        }
        // (2) one shared sparse simplifier, random order
        let mut order: Vec<usize> = (0..n).collect();
        rng.shuffle(&mut order);
        let mut shared = Simplifier::new(SparseExprMap::default());
        for &i in &order {
            let r = get!(call(sh, ctx, &mut shared, batch[i], "shared sparse"));
            sh.count("history_checks", 1);
            if r != fresh[i] {
                sh.violation(
                    format!("C13|history-dependent|sparse|{}", r2::op_name(&ctx[batch[i]])),
                    format!(
                        "input: {}\nalone: {}\nafter {} other expressions with the same Simplifier<SparseExprMap>: {}\nbatch: {}",
                        r2::render(ctx, batch[i]),
                        r2::render(ctx, fresh[i]),
                        order.iter().position(|x| *x == i).unwrap(),
                        r2::render(ctx, r),
                        batch.iter().map(|b| util::trunc(&r2::render(ctx, *b), 300)).collect::<Vec<_>>().join(" || ")
                    ),
                    json!({}),
                );
                return;
            }
        }
        // repeated query on the warm cache
        for &i in &order {
            let r = get!(call(sh, ctx, &mut shared, batch[i], "shared sparse, warm"));
            if r != fresh[i] {
                sh.violation(format!("C13|history-dependent|sparse-warm|{}", r2::op_name(&ctx[batch[i]])), format!("input: {}\nalone: {}\nwarm cache: {}", r2::render(ctx, batch[i]), r2::render(ctx, fresh[i]), r2::render(ctx, r)), json!({}));
                return;
            }
        }
        // (3) one shared dense simplifier, another order
        rng.shuffle(&mut order);
        let mut shared = Simplifier::new(DenseExprMetaData::default());
        for &i in &order {
            let r = get!(call(sh, ctx, &mut shared, batch[i], "shared dense"));
            sh.count("history_checks", 1);
            if r != fresh[i] {
                sh.violation(
                    format!("C13|history-dependent|dense|{}", r2::op_name(&ctx[batch[i]])),
                    format!(
                        "input: {}\nalone (sparse cache): {}\nwith a shared Simplifier<DenseExprMetaData>: {}\nbatch: {}",
                        r2::render(ctx, batch[i]),
                        r2::render(ctx, fresh[i]),
                        r2::render(ctx, r),
                        batch.iter().map(|b| util::trunc(&r2::render(ctx, *b), 300)).collect::<Vec<_>>().join(" || ")
                    ),
                    json!({}),
                );
                return;
            }
        }
        if sh.want_sample() && n > 1 {
            sh.sample(json!({"batch": batch.iter().map(|b| util::trunc(&r2::render(ctx, *b), 200)).collect::<Vec<_>>(), "results": fresh.iter().map(|b| util::trunc(&r2::render(ctx, *b), 200)).collect::<Vec<_>>()}));
        }
    }
}

impl Check for C13 {
    fn id(&self) -> &'static str {
        "C13"
    }
    fn work(&self, tier: Tier) -> Vec<WorkItem> {
        let mut ctx = Context::default();
        let n = sysenum::scope(&mut ctx, tier.pick(&[1, 2], &[1, 2, 3])).recipes.len() as u64;
        vec![WorkItem { mode: "sys", count: n.div_ceil(4) }, WorkItem { mode: "rand", count: tier.pick(500_000, 20_000_000) }, WorkItem { mode: "big", count: tier.pick(3_000, 150_000) }]
    }
    fn evaluations_counter(&self) -> &'static str {
        "simplify_calls"
    }
    fn rule(&self) -> String {
        format!("batches of 2..8 G1 expressions sharing sub-terms (rand), groups of 4 consecutive terms of the systematic depth<=2 scope (sys) and DAGs of 100-300 nodes folded from 40 shared terms (big); per batch: fresh Simplifier per expression, second pass with the same and with a fresh instance (idempotence, reference equality), one shared Simplifier<SparseExprMap> in random order + warm re-query, one shared Simplifier<DenseExprMetaData> in another order (history/cache transparency, reference equality). Termination restated as: at most {STEP_LIMIT} H2 rewrite events per top-level call (logical step counter, no wall clock). Multiplications wider than 128 bits are not generated (they abort inside the bit-vector library, see C01). distinct_nontrivial = distinct inputs the simplifier changed.")
    }
    fn assumptions(&self) -> Vec<String> {
        vec!["bounded-progress restatement of termination; DAGs of at most a few hundred nodes".into(), "calls in which a constant fold produced a non-canonical literal (known defect of the bit-vector library, reported by C01/C06/C12) and the simplifier then aborted are counted, not judged".into()]
    }
    fn run_case(&self, sh: &mut Shard, case: &CaseId) {
        let mut rng = Rng::new(sh.case_seed());
        if case.mode == "sys" {
            thread_local! {
                static SCOPE: RefCell<Option<(Context, sysenum::Scope)>> = const { RefCell::new(None) };
            }
            let widths: &[u32] = sh.tier.pick(&[1, 2], &[1, 2, 3]);
            let (mut ctx, scope) = SCOPE.with(|s| s.borrow_mut().take()).unwrap_or_else(|| {
                let mut ctx = Context::default();
                let sc = sysenum::scope(&mut ctx, widths);
                (ctx, sc)
            });
            let lo = (case.n * 4) as usize;
            let mut batch = vec![];
            for i in lo..(lo + 4).min(scope.recipes.len()) {
                batch.push(sysenum::build(&mut ctx, scope.recipes[i]));
            }
            self.batch(sh, &mut ctx, &mut rng, &batch);
            SCOPE.with(|s| *s.borrow_mut() = Some((ctx, scope)));
            return;
        }
        if case.mode == "big" {
            // DAGs of up to ~300 nodes: many terms folded into a few roots that share most of their sub-terms
            let mut ctx = Context::default();
            let mut cfg = GenCfg::default();
            cfg.wide_mul = false;
            cfg.share_pct = 60;
            cfg.max_depth = 3;
            let w = *rng.pick(&[1u32, 4, 8, 33, 64, 65]);
            let mut terms = vec![];
            {
                let mut g = ExprGen::new(&mut rng, cfg);
                for _ in 0..40 {
                    terms.push(g.bv(&mut ctx, w, 3));
                }
            }
            let mut batch = vec![];
            for k in 0..3 {
                let mut acc = terms[k];
                for (i, t) in terms.iter().enumerate().skip(k + 1) {
                    acc = match (i + k) % 5 {
                        0 => ctx.and(acc, *t),
                        1 => ctx.or(acc, *t),
                        2 => ctx.xor(acc, *t),
                        3 => ctx.add(acc, *t),
                        _ => {
                            let c = ctx.equal(acc, *t);
                            ctx.ite(c, acc, *t)
                        }
                    };
                }
                batch.push(acc);
            }
            let nodes = r2::post_order(&ctx, &batch).len() as u64;
            sh.count("dag_nodes", nodes);
            sh.hist("big_dag_nodes_log2", &format!("{:02}", (nodes + 1).ilog2()));
            self.batch(sh, &mut ctx, &mut rng, &batch);
            return;
        }
        let mut ctx = Context::default();
        let mut cfg = GenCfg::default();
        cfg.wide_mul = false;
        cfg.share_pct = 45;
        let n = rng.range(2, 8) as usize;
        let mut batch = vec![];
        {
            let mut g = ExprGen::new(&mut rng, cfg);
            for _ in 0..n {
                let (e, fam) = g.top(&mut ctx);
                batch.push(e);
                let _ = fam;
            }
        }
        let nodes = r2::post_order(&ctx, &batch).len() as u64;
        sh.count("dag_nodes", nodes);
        self.batch(sh, &mut ctx, &mut rng, &batch);
    }
    fn finalize(&self, m: &mut Merged, tier: Tier) {
        m.floor("idempotence checks", m.c("idempotence_checks"), tier.pick(500_000, 10_000_000));
        m.floor("history/cache transparency checks", m.c("history_checks"), tier.pick(500_000, 10_000_000));
    }
}

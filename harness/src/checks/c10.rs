//! C10 PDR is sound and definite

use super::c02::{mc_sys_cfg, no_verdict_cause};
use super::mcrun::*;
use crate::refsem::expr_eval::{self as r2, Env};
use crate::refsem::reach::{self, Reach};
use crate::runner::*;
use crate::util::{self, Rng};
use crate::wl::sys::{describe, gen_system};
use patronus::expr::{Context, ExprRef};
use patronus::system::TransitionSystem;
use rustc_hash::FxHashSet;
use serde_json::json;
use std::cell::RefCell;
use std::rc::Rc;

pub struct C10;

#[derive(Clone)]
pub struct Snapshot {
    pub finite: Vec<Vec<Vec<ExprRef>>>,
    pub infinite: Vec<Vec<ExprRef>>,
    pub success: bool,
}

const MAX_QUERIES: usize = 100_000;

fn cube_contains(ctx: &Context, cube: &[ExprRef], env: &Env) -> bool {
    cube.iter().all(|l| r2::eval(ctx, env, *l).map(|v| v.bv().is_true()).unwrap_or(false))
}

fn show_cube(ctx: &Context, cube: &[ExprRef]) -> String {
    cube.iter().map(|l| r2::render(ctx, *l)).collect::<Vec<_>>().join(" & ")
}

pub struct Explicit {
    nstates: u64,
    ninputs: u64,
    feasible: Vec<bool>,
    /// state -> smallest depth at which it is reachable along constraint-satisfying paths
    depth: Vec<Option<usize>>,
    init: FxHashSet<u64>,
}

pub fn explicit(ctx: &Context, sys: &TransitionSystem, r: &mut Reach) -> Result<Explicit, String> {
    let nstates = 1u64 << r.state_bits;
    let ninputs = 1u64 << r.input_bits;
    let mut feasible = vec![false; nstates as usize];
    for s in 0..nstates {
        for i in 0..ninputs {
            if reach::step(ctx, sys, r, s, i)?.0 {
                feasible[s as usize] = true;
                break;
            }
        }
    }
    let mut depth = vec![None; nstates as usize];
    for (d, layer) in r.layers.iter().enumerate() {
        for s in layer {
            // an initial state whose own (tied) step-0 input breaks the constraints starts no execution at all
            if d == 0 && !r.init_ok.contains(s) {
                continue;
            }
            if depth[*s as usize].is_none() {
                depth[*s as usize] = Some(d);
            }
        }
    }
    let init = r.init_ok.clone();
    Ok(Explicit { nstates, ninputs, feasible, depth, init })
}

impl C10 {
    /// checks the frame-trace invariants every correct IC3/PDR satisfies; Err((kind, text)) on a breach
    pub fn check_snapshots(&self, sh: &mut Shard, ctx: &Context, sys: &TransitionSystem, r: &mut Reach, ex: &Explicit, snaps: &[Snapshot]) -> Result<(), (String, String)> {
        let state_env = |s: u64| -> Env {
            let mut env = Env::default();
            reach::decode(ctx, &r.state_syms, s, &mut env);
            env
        };
        let envs: Vec<Env> = (0..ex.nstates).map(state_env).collect();
        for (si, snap) in snaps.iter().enumerate() {
            sh.count("snapshots_checked", 1);
            // (A) over-approximation
            for (fi, frame) in snap.finite.iter().enumerate() {
                let j = fi + 1;
                for cube in frame {
                    sh.count("cubes_checked", 1);
                    for s in 0..ex.nstates {
                        let reach_within = ex.depth[s as usize].map(|d| d <= j).unwrap_or(false);
                        if reach_within && ex.feasible[s as usize] && cube_contains(ctx, cube, &envs[s as usize]) {
                            return Err((
                                "frame-blocks-reachable-state".into(),
                                format!("snapshot {si}: frame {j} blocks the cube [{}] which contains state {} reachable in {} step(s)", show_cube(ctx, cube), super::common::show_env(ctx, &envs[s as usize]), ex.depth[s as usize].unwrap()),
                            ));
                        }
                    }
                }
            }
            for cube in &snap.infinite {
                sh.count("cubes_checked", 1);
                for s in 0..ex.nstates {
                    if ex.depth[s as usize].is_some() && ex.feasible[s as usize] && cube_contains(ctx, cube, &envs[s as usize]) {
                        return Err((
                            "infinite-frame-blocks-reachable-state".into(),
                            format!("snapshot {si}: the infinite frame blocks the cube [{}] which contains the reachable state {} (depth {})", show_cube(ctx, cube), super::common::show_env(ctx, &envs[s as usize]), ex.depth[s as usize].unwrap()),
                        ));
                    }
                }
            }
            // (B) the invariant returned with Success
            if snap.success {
                sh.count("success_invariants_checked", 1);
                let inv: Vec<bool> = (0..ex.nstates).map(|s| !snap.infinite.iter().any(|c| cube_contains(ctx, c, &envs[s as usize]))).collect();
                for s in ex.init.iter() {
                    if ex.feasible[*s as usize] && !inv[*s as usize] {
                        return Err(("invariant-misses-initial-state".into(), format!("the invariant excludes the initial state {}", super::common::show_env(ctx, &envs[*s as usize]))));
                    }
                }
                for s in 0..ex.nstates {
                    if !inv[s as usize] {
                        continue;
                    }
                    for i in 0..ex.ninputs {
                        let (ok, bads, succ) = reach::step(ctx, sys, r, s, i).map_err(|e| ("oracle".to_string(), e))?;
                        if !ok {
                            continue;
                        }
                        if bads.iter().any(|b| *b) {
                            return Err(("invariant-contains-bad-state".into(), format!("the invariant contains state {} which is bad under a constraint-satisfying input", super::common::show_env(ctx, &envs[s as usize]))));
                        }
                        if ex.feasible[succ as usize] && !inv[succ as usize] {
                            return Err((
                                "invariant-not-closed".into(),
                                format!("the invariant contains {} but not its successor {} (input #{i})", super::common::show_env(ctx, &envs[s as usize]), super::common::show_env(ctx, &envs[succ as usize])),
                            ));
                        }
                    }
                }
            }
        }
        Ok(())
    }
}


impl C10 {
    /// randomised version of the frame invariants for designs whose state space cannot be enumerated: on Success the
    /// invariant (complement of the infinite frame's cubes) must contain every state that constrained random
    /// simulation in R3 visits, must not contain a state that is bad under a constraint-satisfying input, and must
    /// be closed under constraint-satisfying steps from sampled states
    fn sampled_invariant_check(&self, sh: &mut Shard, ctx: &Context, sys: &TransitionSystem, rng: &mut Rng, infinite: &[Vec<ExprRef>]) -> Result<(), (String, String)> {
        use crate::refsem::bv::Val;
        use crate::refsem::sim::RefSim;
        use crate::wl::expr::random_env;
        let state_syms: Vec<ExprRef> = sys.states.iter().map(|s| s.symbol).collect();
        let mut all_syms = state_syms.clone();
        all_syms.extend(sys.inputs.iter().copied());
        let mut roots: Vec<ExprRef> = sys.constraints.clone();
        roots.extend(sys.bad_states.iter().copied());
        let nc = sys.constraints.len();
        let truth = |v: &Val| matches!(v, Val::B(b) if b.is_true());
        let blocked = |env: &Env| infinite.iter().find(|c| cube_contains(ctx, c, env)).cloned();
        let show_states = |env: &Env| state_syms.iter().map(|s| format!("{}={}", r2::render(ctx, *s), match &env[s] { Val::B(b) => b.show(), Val::A(_) => "<array>".into() })).collect::<Vec<_>>().join(" ");
        // picks inputs (and for step 0 free state values) until the constraints hold; None if 12 tries fail
        let settle = |sim: &mut RefSim, rng: &mut Rng, init: bool| -> Option<Vec<Val>> {
            for _ in 0..12 {
                if init {
                    let env = random_env(rng, ctx, &all_syms);
                    sim.init(|s| env[&s].clone()).ok()?;
                } else {
                    let env = random_env(rng, ctx, &sys.inputs);
                    for i in &sys.inputs {
                        sim.set(*i, env[i].clone());
                    }
                }
                let vals = sim.get_many(&roots).ok()?;
                if vals[..nc].iter().all(truth) {
                    return Some(vals);
                }
            }
            None
        };
        // (1) reachable states (random constrained paths from the initial states)
        for _ in 0..sh.tier.pick(30, 200) {
            let mut sim = RefSim::new(ctx, sys);
            for step in 0..sh.tier.pick(15, 40) {
                let Some(vals) = settle(&mut sim, rng, step == 0) else { break };
                sh.count("corpus_invariant_reachable_states_checked", 1);
                if let Some(c) = blocked(&sim.vals) {
                    return Err(("infinite-frame-blocks-reachable-state".into(), format!("the infinite frame blocks the cube [{}] which contains the state {} reached by the reference simulator after {step} step(s) on a constraint-satisfying path", show_cube(ctx, &c), show_states(&sim.vals))));
                }
                if vals[nc..].iter().any(truth) {
                    return Err(("invariant-contains-bad-state".into(), format!("state {} is reachable ({step} steps, reference simulator) and bad under a constraint-satisfying input", show_states(&sim.vals))));
                }
                if sim.step().is_err() {
                    break;
                }
            }
        }
        // (2) closure from sampled states inside the invariant
        for _ in 0..sh.tier.pick(300, 3000) {
            let mut sim = RefSim::new(ctx, sys);
            let env = random_env(rng, ctx, &all_syms);
            for s in &all_syms {
                sim.vals.insert(*s, env[s].clone());
            }
            if blocked(&sim.vals).is_some() {
                continue;
            }
            let Some(vals) = settle(&mut sim, rng, false) else { continue };
            sh.count("corpus_invariant_states_sampled", 1);
            let from = show_states(&sim.vals);
            if vals[nc..].iter().any(truth) {
                return Err(("invariant-contains-bad-state".into(), format!("the invariant contains state {from} which is bad under a constraint-satisfying input")));
            }
            if sim.step().is_err() {
                continue;
            }
            // successor: only judged if it is feasible (has an input satisfying the constraints)
            if settle(&mut sim, rng, false).is_some() {
                if let Some(c) = blocked(&sim.vals) {
                    return Err(("invariant-not-closed".into(), format!("the invariant contains {from} but its (feasible) successor {} lies in the blocked cube [{}]", show_states(&sim.vals), show_cube(ctx, &c))));
                }
                sh.count("corpus_invariant_steps_checked", 1);
            }
        }
        Ok(())
    }

    /// PDR on the shipped bit-vector designs under a deterministic effort bound
    fn corpus_case(&self, sh: &mut Shard, rng: &mut Rng, n: usize) {
        let files = super::c11::corpus_files();
        let Some(path) = files.get(n) else { return };
        let Ok(text) = std::fs::read_to_string(path) else { return };
        let name = util::short_path(&path.to_string_lossy());
        if text.len() > sh.tier.pick(4_000, 16_000) || !text.lines().any(|l| l.split_whitespace().nth(1) == Some("bad")) {
            return;
        }
        let mut ctx = Context::default();
        let Ok(Some(sys)) = util::catch(|| patronus::btor2::parse_str(&mut ctx, &text, Some("corpus"))) else { return };
        use patronus::expr::{Type, TypeCheck};
        let nodes = r2::post_order(&ctx, &crate::wl::sys::all_roots(&sys));
        if sys.states.is_empty() || sys.states.iter().any(|s| s.next.is_none()) || nodes.iter().any(|e| matches!(e.get_type(&ctx), Type::Array(_))) {
            sh.count("corpus_designs_outside_the_domain", 1);
            return;
        }
        sh.count("corpus_designs", 1);
        let (sim_bad, _, _) = super::c02::sim_first_bad(&ctx, &sys, rng, 40, sh.tier.pick(40, 400), sh.tier.pick(3_000_000, 60_000_000));
        let mut behaviours: Vec<(&str, bool, &str)> = vec![];
        for p in ["bitwuzla", "z3", "cvc5"] {
            for core in ["minimal", "full", "random"] {
                behaviours.push((p, false, core));
            }
            behaviours.push((p, true, "minimal"));
        }
        let (persona, no_gen, core) = *rng.pick(&behaviours);
        let snaps: Rc<RefCell<Option<Snapshot>>> = Rc::new(RefCell::new(None));
        let s2 = snaps.clone();
        patronus::verif::set_pdr_observer(Some(Box::new(move |_ctx, finite, infinite, success| {
            if success {
                *s2.borrow_mut() = Some(Snapshot { finite: finite.to_vec(), infinite: infinite.to_vec(), success });
            }
        })));
        set_env("REFSOLVER_RLIMIT", sh.tier.pick("3000000", "20000000"));
        set_env("REFSOLVER_MAX_CHECKS", sh.tier.pick("500", "20000"));
        let mcfg = McCfg { persona, individually: false, check_constraints: false, k_max: 0, solver_seed: rng.next() % 100_000, diversify: 0, core_mode: core };
        let run = run_pdr(&mut ctx, &sys, &mcfg, no_gen, &sh.workdir.clone(), &format!("c10c_{}", sh.cur.n));
        patronus::verif::set_pdr_observer(None);
        unset_env("REFSOLVER_MAX_CHECKS");
        sh.count("corpus_pdr_runs", 1);
        let cfg_txt = format!("{name} persona={persona} generalisation={} cores={core} seed={}", !no_gen, mcfg.solver_seed);
        let mut fail = |sh: &mut Shard, sig: String, d: String| {
            sh.violation(sig, format!("{d} ({cfg_txt})"), json!({"file": name}));
        };
        match &run.verdict {
            Verdict::Success => {
                sh.hist("corpus_verdicts", "success");
                if let Some(d) = sim_bad {
                    fail(sh, "C10|corpus|unsound|success-but-simulation-reached-a-bad-state".into(), format!("pdr says Success, but the reference simulator reached a bad state at step {d} on a constraint-satisfying path"));
                } else {
                    // a bounded check whose counterexample (if any) is validated by the reference simulator
                    let bcfg = McCfg { persona: "z3", individually: false, check_constraints: false, k_max: sh.tier.pick(10, 25), solver_seed: 1, diversify: 0, core_mode: "minimal" };
                    let b = run_bmc(&mut ctx, &sys, &bcfg, &sh.workdir.clone(), &format!("c10cb_{}", sh.cur.n));
                    if let Verdict::Fail(w) = &b.verdict {
                        if validate_witness(&ctx, &sys, w).is_ok() {
                            fail(sh, "C10|corpus|unsound|success-but-validated-counterexample".into(), format!("pdr says Success, but a counterexample of {} steps replays in the reference simulator:\n{}", w.inputs.len(), util::trunc(&patronus::btor2::witness_to_string(w), 2000)));
                            unset_env("REFSOLVER_RLIMIT");
                            return;
                        }
                    }
                    let _ = std::fs::remove_file(&b.replay);
                    let _ = std::fs::remove_file(&b.log);
                    let snap = snaps.borrow().clone();
                    match snap {
                        Some(snap) => match self.sampled_invariant_check(sh, &ctx, &sys, rng, &snap.infinite) {
                            Ok(()) => sh.count("corpus_success_invariants_sampled", 1),
                            Err((kind, text)) => fail(sh, format!("C10|corpus|frame-invariant|{kind}"), text),
                        },
                        None => sh.count("corpus_success_without_final_snapshot", 1),
                    }
                }
            }
            Verdict::Fail(w) => {
                sh.hist("corpus_verdicts", "fail");
                match validate_witness(&ctx, &sys, w) {
                    Ok(_) => sh.count("corpus_witnesses_validated", 1),
                    Err((kind, text)) => fail(sh, format!("C10|corpus|invalid-witness|{kind}"), text),
                }
            }
            other => {
                if budget_exceeded(other) {
                    sh.count("corpus_runs_over_the_effort_bound", 1);
                } else {
                    let cause = no_verdict_cause(&run);
                    fail(sh, format!("C10|corpus|indefinite|{}|{cause}", other.name()), format!("pdr returned {:?}", other));
                }
            }
        }
        unset_env("REFSOLVER_RLIMIT");
        sh.distinct(util::hash_str(&cfg_txt));
        let _ = std::fs::remove_file(&run.log);
    }
}

impl Check for C10 {
    fn id(&self) -> &'static str {
        "C10"
    }
    fn work(&self, tier: Tier) -> Vec<WorkItem> {
        vec![WorkItem { mode: "corpus", count: super::c11::corpus_files().len() as u64 }, WorkItem { mode: "gen", count: std::env::var("VERIF_N").ok().and_then(|s| s.parse().ok()).unwrap_or(tier.pick(320, 12_000)) }]
    }
    fn evaluations_counter(&self) -> &'static str {
        "pdr_runs"
    }
    fn rule(&self) -> String {
        "G2 bit-vector systems (<= 8 state bits, <= 4 input bits, free/initialised/const states, init chains, 0-2 constraints, 1-3 bads, shared sub-terms) whose full reachability fixpoint R4 computes; each system is given to patronus::mc::pdr under 4 of the 21 solver behaviours {bitwuzla, z3, cvc5} x {generalisation on, off} and yices-smt2 (off) x unsat-core answers {minimal, full, random superset} x random model seeds (rotating per system). Verdict: Success/Fail must match unbounded reachability; Unknown/Err/panic or more than 10^5 solver queries is a violation (bounded-progress restatement of termination); Fail witnesses go through the C03 validator. Hook H3: after every main-loop iteration and before Success the frame trace is checked on the explicit state space: (A) no cube of frame j contains a feasible state reachable within j steps, no cube of the infinite frame contains any feasible reachable state; (B) on Success the infinite frame contains every feasible initial state, is closed under the constrained transition relation and contains no state that is bad under a constraint-satisfying input. mode corpus: the shipped designs with bit-vector states only (quick <= 4 kB, thorough <= 16 kB) are given to pdr under one random behaviour and a deterministic effort bound (z3 rlimit per query, query count per session; runs over it are counted, not judged): Fail witnesses go through the C03 validator; Success must not contradict a bad state reached by constrained random simulation in R3 or a bounded counterexample that replays in R3, and the returned invariant is sampled: no state visited by random constrained simulation lies in a blocked cube, no sampled invariant state is bad under a constraint-satisfying input, sampled constraint-satisfying steps stay inside. distinct_nontrivial = distinct (system, behaviour) runs on systems with >= 2 reachable states.".into()
    }
    fn assumptions(&self) -> Vec<String> {
        vec![
            "bit-vector states only, every state has a next function; init expressions read earlier states and, in a quarter of the systems, inputs".into(),
            "feasible = the state has at least one input satisfying the constraints in its own step; PDR may legitimately block other states".into(),
        ]
    }
    fn prepare(&self, _tier: Tier) -> Result<(), String> {
        install_solvers()
    }
    fn shard_begin(&self, _sh: &mut Shard) {
        use_refsolver_path();
    }
    fn shard_end(&self, _sh: &mut Shard) {
        stop_z3_server();
    }
    fn nshards(&self, _tier: Tier) -> u64 {
        8
    }
    fn shard_timeout_s(&self, tier: Tier) -> u64 {
        tier.pick(1800, 6 * 3600)
    }
    fn run_case(&self, sh: &mut Shard, case: &CaseId) {
        let mut rng = Rng::new(sh.case_seed());
        if case.mode == "corpus" {
            self.corpus_case(sh, &mut rng, case.n as usize);
            return;
        }
        let mut ctx = Context::default();
        let mut cfg = mc_sys_cfg(&mut rng);
        cfg.arrays = false;
        // (mc_sys_cfg lets the init expressions of a quarter of the systems read inputs)
        cfg.max_state_bits = *rng.pick(&[4u32, 6, 8]);
        // two thirds of the cases look for a safe system with a non-trivial reachable set (PDR has to find
        // an invariant there); failing systems are plentiful anyway
        let want_safe = rng.chance(2, 3);
        let mut picked = None;
        for attempt in 0..12 {
            let gs = gen_system(&mut rng, &mut ctx, &cfg, &format!("t{attempt}_"));
            let r = match reach_for(&ctx, &gs.sys, 400, true) {
                Ok(r) => r,
                Err(e) => {
                    sh.inconclusive(format!("reference reachability: {e}"));
                    return;
                }
            };
            let interesting_safe = r.min_bad_depth.is_none() && r.all_reached.len() >= 3 && (r.all_reached.len() as u64) < (1u64 << r.state_bits);
            if !want_safe || interesting_safe || attempt == 11 {
                picked = Some((gs.sys, r));
                break;
            }
        }
        let (sys, mut reach) = picked.unwrap();
        let label = describe(&ctx, &sys);
        if !reach.fixpoint {
            sh.inconclusive("reference reachability did not reach its fixpoint".to_string());
            return;
        }
        let ex = match explicit(&ctx, &sys, &mut reach) {
            Ok(e) => e,
            Err(e) => {
                sh.inconclusive(e);
                return;
            }
        };
        let bad_reachable = reach.min_bad_depth.is_some();
        sh.hist("reference", if bad_reachable { "bad-reachable" } else { "safe" });
        // behaviours
        let mut behaviours: Vec<(&str, bool, &str)> = vec![];
        for p in ["bitwuzla", "z3", "cvc5"] {
            for core in ["minimal", "full", "random"] {
                behaviours.push((p, false, core));
            }
            behaviours.push((p, true, "minimal"));
        }
        behaviours.push(("yices-smt2", true, "minimal"));
        rng.shuffle(&mut behaviours);
        for (persona, no_gen, core) in behaviours.into_iter().take(4) {
            let snaps: Rc<RefCell<Vec<Snapshot>>> = Rc::new(RefCell::new(vec![]));
            let s2 = snaps.clone();
            patronus::verif::set_pdr_observer(Some(Box::new(move |_ctx, finite, infinite, success| {
                let mut v = s2.borrow_mut();
                if v.len() < 5000 {
                    v.push(Snapshot { finite: finite.to_vec(), infinite: infinite.to_vec(), success });
                }
            })));
            let mcfg = McCfg { persona, individually: false, check_constraints: false, k_max: 0, solver_seed: rng.next() % 100_000, diversify: 0, core_mode: core };
            let run = run_pdr(&mut ctx, &sys, &mcfg, no_gen, &sh.workdir.clone(), &format!("c10_{}", sh.cur.n));
            patronus::verif::set_pdr_observer(None);
            sh.count("pdr_runs", 1);
            let cfg_txt = format!("persona={persona} generalisation={} cores={core} seed={}", !no_gen, mcfg.solver_seed);
            sh.hist("behaviour", &format!("{persona}|gen={}|{core}", !no_gen));
            let events = read_log(&run.log);
            let queries = events.iter().filter(|e| e.get("answer").is_some()).count();
            sh.count("solver_queries", queries as u64);
            if reach.all_reached.len() >= 2 {
                sh.distinct(util::mix(&[util::hash_str(&label), util::hash_str(&cfg_txt)]));
            }
            let (min_bad, nreach) = (reach.min_bad_depth, reach.all_reached.len());
            let fail = |sh: &mut Shard, sig: String, d: String| {
                sh.violation(sig, format!("{d} ({cfg_txt}; {queries} solver queries)\nreference: bad state {} (first at depth {:?}), {} reachable states\n{label}", if bad_reachable { "reachable" } else { "unreachable" }, min_bad, nreach), json!({"system": label}));
            };
            if queries > MAX_QUERIES {
                fail(sh, "C10|no-termination|query-limit".into(), format!("more than {MAX_QUERIES} solver queries"));
                return;
            }
            match &run.verdict {
                Verdict::Success => {
                    sh.hist("verdicts", "success");
                    if bad_reachable {
                        fail(sh, "C10|unsound|success-but-bad-reachable".into(), "pdr says Success".into());
                        return;
                    }
                }
                Verdict::Fail(w) => {
                    sh.hist("verdicts", "fail");
                    if !bad_reachable {
                        fail(sh, "C10|unsound|fail-but-bad-unreachable".into(), "pdr says Fail".into());
                        return;
                    }
                    if let Err((kind, text)) = validate_witness(&ctx, &sys, w) {
                        fail(sh, format!("C10|invalid-witness|{kind}"), text);
                        return;
                    }
                    sh.count("witnesses_validated", 1);
                }
                other => {
                    if budget_exceeded(other) {
                        backend_trouble(sh, other, &cfg_txt);
                        return;
                    }
                    let cause = no_verdict_cause(&run);
                    fail(sh, format!("C10|indefinite|{}|{cause}", other.name()), format!("pdr returned {:?}", other));
                    return;
                }
            }
            // frame-trace invariants
            let snaps = snaps.borrow().clone();
            sh.count("snapshots", snaps.len() as u64);
            if let Err((kind, text)) = self.check_snapshots(sh, &ctx, &sys, &mut reach, &ex, &snaps) {
                fail(sh, format!("C10|frame-invariant|{kind}"), text);
                return;
            }
            let _ = std::fs::remove_file(&run.log);
        }
        if sh.want_sample() {
            sh.sample(json!({"system": label, "reference": if bad_reachable { "bad reachable" } else { "safe" }, "reachable_states": reach.all_reached.len()}));
        }
    }
    fn finalize(&self, m: &mut Merged, tier: Tier) {
        m.floor("pdr runs", m.c("pdr_runs"), tier.pick(1_000, 40_000));
        m.floor("runs with verdict success", m.h("verdicts", "success"), tier.pick(100, 5_000));
        m.floor("runs with verdict fail", m.h("verdicts", "fail"), tier.pick(100, 5_000));
        m.floor("frame snapshots checked", m.c("snapshots_checked"), tier.pick(3_000, 100_000));
        m.floor("success invariants checked", m.c("success_invariants_checked"), tier.pick(100, 5_000));
        m.floor("solver behaviours exercised", m.hist_len("behaviour") as u64, 13);
        m.floor("pdr runs on shipped designs", m.c("corpus_pdr_runs"), tier.pick(20, 30));
    }
}

//! C16 btor2 witness text round-trips

use crate::refsem::bv::Bv;
use crate::refsem::expr_eval::{baa_from_bv, bv_from_baa};
use crate::runner::*;
use crate::util::{self, Rng};
use crate::wl::expr::lit_shape;
use baa::{ArrayMutOps, ArrayOps, ArrayValue, BitVecOps, BitVecValue, Value};
use num_bigint::BigUint;
use patronus::btor2::{parse_witness, parse_witnesses, witness_to_string};
use patronus::mc::{InitValue, Witness};
use serde_json::json;
use std::collections::BTreeMap;

pub struct C16;

/// harness-side description of a witness (independent of baa types)
#[derive(Clone, Debug, PartialEq)]
enum IV {
    B(Bv),
    A { iw: u32, dw: u32, entries: BTreeMap<BigUint, BigUint> },
}

#[derive(Clone, Debug, PartialEq)]
struct W {
    failed: Vec<u32>,
    init: Vec<IV>,
    init_names: Vec<String>,
    inputs: Vec<Vec<Bv>>,
    input_names: Vec<String>,
}

fn pick_width(rng: &mut Rng) -> u32 {
    match rng.below(10) {
        0 | 1 => 1,
        2..=4 => rng.range(2, 8) as u32,
        5 => rng.range(31, 33) as u32,
        6 => rng.range(63, 65) as u32,
        7 => rng.range(127, 129) as u32,
        _ => rng.range(9, 200) as u32,
    }
}

/// a `Write` that takes at most `max` bytes per call
struct Chunky {
    buf: Vec<u8>,
    max: usize,
}

impl std::io::Write for Chunky {
    fn write(&mut self, b: &[u8]) -> std::io::Result<usize> {
        let n = b.len().min(self.max);
        self.buf.extend_from_slice(&b[..n]);
        Ok(n)
    }
    fn flush(&mut self) -> std::io::Result<()> {
        Ok(())
    }
}

fn name(rng: &mut Rng, k: usize) -> String {
    // names that look like the ones the printer invents for unnamed signals (`state_<i>`, `input_<i>`), at their own
    // index and at others
    if rng.chance(1, 8) {
        let i = if rng.flip() { k % 100 } else { (k % 100) + 1 };
        return format!("{}{i}", rng.pick(&["state_", "input_", "_state_", "state", "input_0"]));
    }
    let alphabet: Vec<char> = "abcdefghijklmnopqrstuvwxyzABCDEFGHIJKLMNOPQRSTUVWXYZ0123456789_.$[]:/\\-+*=<>!?|&%~^'\"(){},".chars().collect();
    let n = rng.range(1, 12);
    let mut s = String::new();
    for _ in 0..n {
        s.push(*rng.pick(&alphabet));
    }
    if rng.chance(1, 10) {
        s.push('ä');
    }
    // distinct names
    format!("{s}{k}")
}

fn gen_w(rng: &mut Rng) -> W {
    let nstates = rng.below(7) as usize;
    // a witness may have no step at all (an init frame only, or nothing but the property line)
    let nsteps = if rng.chance(1, 8) { 0 } else { rng.range(1, 8) as usize };
    // the format names an input where it gives its value, so a witness without steps has no inputs to name
    let ninputs = if nsteps == 0 { 0 } else { rng.below(6) as usize };
    let mut w = W { failed: vec![], init: vec![], init_names: vec![], inputs: vec![], input_names: vec![] };
    let nf = rng.range(1, 3);
    let mut f: Vec<u32> = (0..nf).map(|_| if rng.chance(1, 8) { rng.next() as u32 } else { rng.below(20) as u32 }).collect();
    f.sort();
    f.dedup();
    if rng.flip() {
        f.reverse();
    }
    w.failed = f;
    for k in 0..nstates {
        w.init_names.push(name(rng, k));
        if rng.chance(1, 3) {
            let iw = if rng.chance(1, 6) { rng.range(6, 64) as u32 } else { rng.range(1, 5) as u32 };
            let dw = pick_width(rng);
            let max_entries = if iw >= 6 { 12 } else { 1u64 << iw };
            let n = rng.range(1, max_entries);
            let mut entries = BTreeMap::new();
            while (entries.len() as u64) < n {
                let idx = if iw <= 5 { BigUint::from(rng.below(1 << iw)) } else { lit_shape(rng, iw) };
                let val = if rng.chance(1, 4) { BigUint::from(0u32) } else { lit_shape(rng, dw) };
                entries.insert(idx, val);
                if iw > 5 && entries.len() >= 12 {
                    break;
                }
            }
            w.init.push(IV::A { iw, dw, entries });
        } else {
            let bw = pick_width(rng);
            w.init.push(IV::B(Bv::new(bw, lit_shape(rng, bw))));
        }
    }
    let widths: Vec<u32> = (0..ninputs).map(|_| pick_width(rng)).collect();
    for k in 0..ninputs {
        w.input_names.push(name(rng, 100 + k));
    }
    for _ in 0..nsteps {
        w.inputs.push(widths.iter().map(|bw| Bv::new(*bw, lit_shape(rng, *bw))).collect());
    }
    w
}

fn to_patronus(w: &W, rng: &mut Rng) -> Witness {
    let mut out = Witness::default();
    out.failed_safety = w.failed.clone();
    out.init_names = w.init_names.iter().map(|n| Some(n.clone())).collect();
    out.input_names = w.input_names.iter().map(|n| Some(n.clone())).collect();
    for iv in &w.init {
        out.init.push(match iv {
            IV::B(b) => InitValue::BitVec(baa_from_bv(b)),
            IV::A { iw, dw, entries } => {
                let dflt = if rng.flip() { BitVecValue::zero(*dw) } else { baa_from_bv(&Bv::new(*dw, lit_shape(rng, *dw))) };
                let mut a = if *iw <= 8 && rng.flip() { ArrayValue::new_dense(*iw, &dflt) } else { ArrayValue::new_sparse(*iw, &dflt) };
                let mut idx = vec![];
                for (k, v) in entries.iter() {
                    let kk = baa_from_bv(&Bv::new(*iw, k.clone()));
                    a.store(&kk, &baa_from_bv(&Bv::new(*dw, v.clone())));
                    idx.push(kk);
                }
                // the recorded index list may come in any order
                rng.shuffle(&mut idx);
                InitValue::Array(a, idx)
            }
        });
    }
    for step in &w.inputs {
        out.inputs.push(step.iter().map(|b| Some(Value::BitVec(baa_from_bv(b)))).collect());
    }
    out
}

fn from_patronus(p: &Witness) -> Result<W, String> {
    let mut w = W { failed: p.failed_safety.clone(), init: vec![], init_names: vec![], inputs: vec![], input_names: vec![] };
    for n in &p.init_names {
        w.init_names.push(n.clone().ok_or("missing state name")?);
    }
    for n in &p.input_names {
        w.input_names.push(n.clone().ok_or("missing input name")?);
    }
    for iv in &p.init {
        w.init.push(match iv {
            InitValue::BitVec(b) => IV::B(bv_from_baa(b)),
            InitValue::Array(a, idx) => {
                let mut entries = BTreeMap::new();
                for i in idx {
                    entries.insert(bv_from_baa(i).v, bv_from_baa(&a.select(i)).v);
                }
                IV::A { iw: a.index_width(), dw: a.data_width(), entries }
            }
            InitValue::None => return Err("state without a value".into()),
        });
    }
    for step in &p.inputs {
        let mut v = vec![];
        for x in step {
            match x {
                Some(Value::BitVec(b)) => v.push(bv_from_baa(b)),
                Some(Value::Array(_)) => return Err("array input".into()),
                None => return Err("input without a value".into()),
            }
        }
        w.inputs.push(v);
    }
    Ok(w)
}

fn first_diff(a: &W, b: &W) -> String {
    if a.failed != b.failed {
        return format!("failed properties {:?} vs {:?}", a.failed, b.failed);
    }
    if a.init_names != b.init_names {
        return format!("state names {:?} vs {:?}", a.init_names, b.init_names);
    }
    if a.input_names != b.input_names {
        return format!("input names {:?} vs {:?}", a.input_names, b.input_names);
    }
    if a.init.len() != b.init.len() {
        return format!("{} vs {} initial values", a.init.len(), b.init.len());
    }
    for (k, (x, y)) in a.init.iter().zip(b.init.iter()).enumerate() {
        if x != y {
            return format!("initial value of state {k}: {x:?} vs {y:?}");
        }
    }
    if a.inputs.len() != b.inputs.len() {
        return format!("{} vs {} steps", a.inputs.len(), b.inputs.len());
    }
    for (k, (x, y)) in a.inputs.iter().zip(b.inputs.iter()).enumerate() {
        if x != y {
            return format!("inputs at step {k}: {x:?} vs {y:?}");
        }
    }
    "no difference".into()
}

fn diff_kind(d: &str) -> &'static str {
    if d.starts_with("failed") {
        "failed-properties"
    } else if d.contains("names") {
        "names"
    } else if d.contains("initial value") {
        if d.contains("A {") { "array-init" } else { "bv-init" }
    } else if d.contains("steps") {
        "step-count"
    } else {
        "inputs"
    }
}

impl Check for C16 {
    fn id(&self) -> &'static str {
        "C16"
    }
    fn work(&self, tier: Tier) -> Vec<WorkItem> {
        vec![WorkItem { mode: "single", count: tier.pick(800_000, 20_000_000) }, WorkItem { mode: "stream", count: tier.pick(200_000, 5_000_000) }]
    }
    fn evaluations_counter(&self) -> &'static str {
        "witnesses_round_tripped"
    }
    fn rule(&self) -> String {
        "G4 complete witnesses: 1-3 failed properties (any order, indices up to 2^32-1), 0-6 states (bit-vectors of widths 1..200 and arrays with 1..2^iw recorded entries for iw<=5 or up to 12 entries for iw up to 64 (the array value type of the bit-vector library cannot hold wider indices at all), zero-valued entries, dense and sparse carriers with arbitrary defaults, recorded index list in any order), 0-5 bit-vector inputs, 0-8 steps (zero steps in one of eight witnesses, with or without an init frame), names over the printable alphabet without whitespace ; @ #. mode single: parse_witness(witness_to_string(w)) compared field by field (array contents at every recorded index); mode stream: 2-5 witnesses concatenated, parse_witnesses with every limit 1..=k must return the first `limit` witnesses in order, larger limits (a few more, or huge: usize::MAX, 2^40) all of them; a third of the witnesses are also printed with print_witness into a sink that accepts 1-9 bytes per write call and must arrive complete. distinct_nontrivial = distinct witness texts with at least one state or input.".into()
    }
    fn assumptions(&self) -> Vec<String> {
        vec!["inputs are bit-vectors (the printer documents array inputs as unsupported); every state/input has a name and a value (complete witness)".into()]
    }
    fn run_case(&self, sh: &mut Shard, case: &CaseId) {
        let mut rng = Rng::new(sh.case_seed());
        let k = if case.mode == "stream" { rng.range(2, 5) as usize } else { 1 };
        let ws: Vec<W> = (0..k).map(|_| gen_w(&mut rng)).collect();
        let mut text = String::new();
        for w in &ws {
            let p = to_patronus(w, &mut rng);
            match util::catch(|| witness_to_string(&p)) {
                Ok(t) => {
                    // the printer proper takes any `Write`: a sink that accepts only a few bytes per call (a pipe, a
                    // size-limited buffer) must receive the same text
                    if rng.chance(1, 3) {
                        let mut sink = Chunky { buf: vec![], max: rng.range(1, 9) as usize };
                        let r = util::catch(|| patronus::btor2::print_witness(&mut sink, &p));
                        sh.count("witnesses_printed_into_a_short_writing_sink", 1);
                        let got = String::from_utf8_lossy(&sink.buf).to_string();
                        if !matches!(r, Ok(Ok(()))) || got != t {
                            sh.violation("C16|printer|sink-dependent", format!("print_witness into a sink that takes at most {} bytes per write call delivered {} of {} bytes (result {:?})\n--- expected\n{}\n--- delivered\n{}", sink.max, got.len(), t.len(), r.map(|x| x.map_err(|e| e.to_string())).map_err(|p| p.msg), util::trunc(&t, 1500), util::trunc(&got, 1500)), json!({}));
                            return;
                        }
                    }
                    text.push_str(&t)
                }
                Err(pi) => {
                    sh.violation(format!("C16|printer-panic|{}", pi.loc()), format!("witness_to_string panicked at {}: {}\n{w:?}", pi.loc(), util::trunc(&pi.msg, 200)), json!({}));
                    return;
                }
            }
        }
        if ws.iter().any(|w| !w.init.is_empty() || !w.input_names.is_empty()) {
            sh.distinct(util::hash_str(&text));
        }
        for w in &ws {
            sh.hist("shape", &format!("states={} arrays={} inputs={}", w.init.len().min(3), w.init.iter().filter(|i| matches!(i, IV::A { .. })).count().min(2), w.input_names.len().min(3)));
        }
        // every limit up to the number written, and limits beyond it ("read them all")
        let mut limits: Vec<usize> = (1..=k).collect();
        limits.push(k + 1 + rng.below(9) as usize);
        if rng.chance(1, 2) {
            limits.push(*rng.pick(&[usize::MAX, usize::MAX / 2, u32::MAX as usize, 1 << 40]));
        }
        for limit in limits {
            let res = util::catch(|| {
                let mut rd = std::io::BufReader::new(text.as_bytes());
                if k == 1 && limit == 1 { parse_witness(&mut rd).map(|w| vec![w]) } else { parse_witnesses(&mut rd, limit) }
            });
            sh.hist("limits", if limit <= k { "<= written" } else if limit < 1000 { "a few more than written" } else { "huge" });
            let got = match res {
                Err(pi) => {
                    sh.violation(format!("C16|reader-panic|{}", pi.loc()), format!("reading the printed witness panicked at {}: {}\n{}", pi.loc(), util::trunc(&pi.msg, 200), util::trunc(&text, 3000)), json!({"text": text}));
                    return;
                }
                Ok(Err(e)) => {
                    sh.violation("C16|reader-error", format!("reader returned an error: {e}\n{}", util::trunc(&text, 3000)), json!({"text": text}));
                    return;
                }
                Ok(Ok(v)) => v,
            };
            if got.len() != limit.min(k) {
                sh.violation("C16|stream-count", format!("{} witnesses written, limit {limit}: {} returned\n{}", k, got.len(), util::trunc(&text, 3000)), json!({"text": text}));
                return;
            }
            for (i, g) in got.iter().enumerate() {
                sh.count("witnesses_round_tripped", 1);
                match from_patronus(g) {
                    Err(e) => {
                        sh.violation("C16|incomplete-after-read", format!("witness {i}: {e}\n{}", util::trunc(&text, 3000)), json!({"text": text}));
                        return;
                    }
                    Ok(back) => {
                        if back != ws[i] {
                            let d = first_diff(&ws[i], &back);
                            sh.violation(format!("C16|differs|{}|{}", diff_kind(&d), if k > 1 { "stream" } else { "single" }), format!("witness {i} of {k} (limit {limit}): {d}\n{}", util::trunc(&text, 3000)), json!({"text": text}));
                            return;
                        }
                    }
                }
            }
        }
        if sh.want_sample() {
            sh.sample(json!({"witness_text": util::trunc(&text, 1200)}));
        }
    }
    fn finalize(&self, m: &mut Merged, tier: Tier) {
        m.floor("witnesses round-tripped", m.c("witnesses_round_tripped"), tier.pick(2_000_000, 50_000_000));
        m.floor("distinct witness shapes", m.hist_len("shape") as u64, 30);
    }
}

pub mod common;
pub mod c01;
pub mod c06;
pub mod c12;
pub mod c13;

use crate::runner::Check;

pub fn all() -> Vec<Box<dyn Check>> {
    vec![Box::new(c01::C01), Box::new(c06::C06), Box::new(c12::C12), Box::new(c13::C13)]
}

pub fn by_id(id: &str) -> Option<Box<dyn Check>> {
    all().into_iter().find(|c| c.id() == id)
}

//! C03 Every counterexample is real

use super::c02::mc_sys_cfg;
use super::mcrun::*;
use crate::runner::*;
use crate::util::{self, Rng};
use crate::wl::sys::{describe, gen_system};
use patronus::expr::Context;
use serde_json::json;

pub struct C03;

/// the btor2 designs shipped with the repository: bmc up to 20 (thorough: 40) steps against the reference
/// solver; every counterexample it reports is replayed in the reference simulator
fn corpus_case(sh: &mut Shard, rng: &mut Rng, n: usize) {
    let files = super::c11::corpus_files();
    let Some(path) = files.get(n) else { return };
    let Ok(text) = std::fs::read_to_string(path) else { return };
    let name = util::short_path(&path.to_string_lossy());
    if text.len() > sh.tier.pick(6_000, 100_000) || !text.lines().any(|l| l.split_whitespace().nth(1) == Some("bad")) {
        sh.count("corpus_files_without_bad_state_or_too_large", 1);
        return;
    }
    let mut ctx = Context::default();
    let Ok(Some(sys)) = util::catch(|| patronus::btor2::parse_str(&mut ctx, &text, Some("corpus"))) else {
        sh.count("corpus_files_not_parsed", 1);
        return;
    };
    sh.count("corpus_systems", 1);
    // deterministic effort bound for the backend instead of a wall-clock one
    set_env("REFSOLVER_RLIMIT", sh.tier.pick("4000000", "30000000"));
    for run_i in 0..2u64 {
        let persona = *rng.pick(&PERSONAS);
        let individually = run_i == 1;
        let k = sh.tier.pick(15, 40);
        let cfgm = McCfg { persona, individually, check_constraints: false, k_max: k, solver_seed: rng.next() % 100_000, diversify: if run_i == 0 { 0 } else { 3 }, core_mode: "minimal" };
        let run = run_bmc(&mut ctx, &sys, &cfgm, &sh.workdir.clone(), &format!("c03c_{}", sh.cur.n));
        sh.count("corpus_bmc_runs", 1);
        let cfg_txt = format!("{name} persona={persona} individually={individually} k={k} seed={} diversify={}", cfgm.solver_seed, cfgm.diversify);
        match &run.verdict {
            Verdict::Fail(w) => match validate_witness(&ctx, &sys, w) {
                Ok(last) => {
                    sh.count("witnesses_validated", 1);
                    sh.count("corpus_witnesses_validated", 1);
                    sh.hist("corpus_witness_length", &format!("{:02}", last + 1));
                    sh.distinct(util::mix(&[util::hash_str(&name), util::hash_str(&patronus::btor2::witness_to_string(w))]));
                    if let Err(d) = replay_in_interpreter(&ctx, &sys, w) {
                        sh.violation("C03|corpus|interpreter-disagrees", format!("{d} ({cfg_txt})\n--- witness\n{}", util::trunc(&patronus::btor2::witness_to_string(w), 3000)), json!({"file": name}));
                        break;
                    }
                }
                Err((kind, text)) => {
                    let wt = util::catch(|| patronus::btor2::witness_to_string(w)).unwrap_or_else(|_| "<unprintable>".into());
                    sh.violation(format!("C03|corpus|invalid-witness|{kind}"), format!("{text} ({cfg_txt})\n--- witness\n{}", util::trunc(&wt, 3000)), json!({"file": name}));
                    break;
                }
            },
            Verdict::Success => sh.count("corpus_runs_with_verdict_success", 1),
            other => {
                if budget_exceeded(other) {
                    sh.count("corpus_runs_over_the_backend_effort_bound", 1);
                } else {
                    sh.hist("corpus_runs_without_verdict", other.name());
                }
            }
        }
        let _ = std::fs::remove_file(&run.replay);
        let _ = std::fs::remove_file(&run.log);
    }
    unset_env("REFSOLVER_RLIMIT");
}

/// model values wider than a machine word: a free state and an input of 65-200 bits, a bad state that pins their
/// sum to a literal with high bits set; the verdict is Fail by construction and the witness has to replay
fn wide_case(sh: &mut Shard, rng: &mut Rng) {
    use patronus::system::{State, TransitionSystem};
    let mut ctx = Context::default();
    let w = *rng.pick(&[65u32, 66, 70, 97, 100, 127, 128, 129, 160, 200]);
    let s = ctx.bv_symbol("wide_s", w);
    let i = ctx.bv_symbol("wide_i", w);
    let mut sys = TransitionSystem::new("wide".to_string());
    sys.add_input(&ctx, i);
    let next = if rng.flip() { ctx.add(s, i) } else { ctx.xor(s, i) };
    sys.add_state(&ctx, State { symbol: s, init: None, next: Some(next) });
    let hi = crate::refsem::bv::pow2(w - 1) + rng.big(w - 1);
    let lit = ctx.bv_lit(&crate::refsem::expr_eval::baa_from_bv(&crate::refsem::bv::Bv::new(w, hi)));
    let sum = ctx.sub(s, i);
    let b = ctx.equal(sum, lit);
    let top = ctx.slice(s, w - 1, w - 1);
    let bad = ctx.and(b, top);
    sys.bad_states.push(bad);
    let label = describe(&ctx, &sys);
    let persona = *rng.pick(&PERSONAS);
    let cfgm = McCfg { persona, individually: rng.flip(), check_constraints: false, k_max: 1, solver_seed: rng.next() % 100_000, diversify: if rng.flip() { 0 } else { 3 }, core_mode: "minimal" };
    let run = run_bmc(&mut ctx, &sys, &cfgm, &sh.workdir.clone(), &format!("c03w_{}", sh.cur.n));
    sh.count("bmc_runs", 1);
    sh.count("wide_value_runs", 1);
    match &run.verdict {
        Verdict::Fail(wit) => match validate_witness(&ctx, &sys, wit) {
            Ok(_) => {
                sh.count("witnesses_validated", 1);
                sh.count("wide_value_witnesses_validated", 1);
                sh.distinct(util::mix(&[util::hash_str(&label), util::hash_str(&patronus::btor2::witness_to_string(wit))]));
            }
            Err((kind, text)) => {
                let wt = util::catch(|| patronus::btor2::witness_to_string(wit)).unwrap_or_else(|_| "<unprintable>".into());
                sh.violation(format!("C03|invalid-witness|{kind}|wide-values"), format!("{text} (persona={persona}, {w}-bit values)\n{label}--- witness\n{wt}"), json!({}));
            }
        },
        other => {
            if !budget_exceeded(other) {
                sh.count("wide_value_runs_without_fail_verdict", 1);
            }
        }
    }
    let _ = std::fs::remove_file(&run.replay);
    let _ = std::fs::remove_file(&run.log);
}

impl Check for C03 {
    fn id(&self) -> &'static str {
        "C03"
    }
    fn work(&self, tier: Tier) -> Vec<WorkItem> {
        vec![WorkItem { mode: "wide", count: tier.pick(80, 4_000) }, WorkItem { mode: "gen", count: tier.pick(1_000, 60_000) }, WorkItem { mode: "corpus", count: super::c11::corpus_files().len() as u64 }]
    }
    fn evaluations_counter(&self) -> &'static str {
        "witnesses_validated"
    }
    fn rule(&self) -> String {
        "G2 systems as in C02 whose bad states are reachable within 5 steps according to R4; for each, bmc is run at the bound d (first bad depth) and d+1 against the reference solver under 8 (persona, mode, solver seed, model diversification) combinations, so that the satisfiable query is answered with different legal models and value spellings; every returned witness is replayed in the reference simulator R3: names/order of states and inputs, a value of the declared type for every state and for every input at every step, initial values equal to init expressions, every constraint true at every step, at least one bad true at the last step and the failed list exactly the bads that hold there; the same witness is replayed through patronus::sim::Interpreter and must give the same bad/constraint values. Systems whose bad states the reference search does not reach get one run at a bound below the first bad depth: any witness reported there is validated as well (it cannot be genuine). (PDR witnesses go through the same validator in C10.) mode wide: a free state and an input of 65-200 bits whose difference a bad state pins to a literal with the top bit set (Fail by construction; the solver prints the values in binary or hex): the witness must replay. mode corpus: every shipped btor2 design with a bad state (quick: files <= 6 kB, 15 steps; thorough: <= 100 kB, 40 steps) is model checked twice (random persona; jointly / individually; plain and diversified models) under a deterministic effort bound of the backend (z3 rlimit; runs over the bound are counted, not judged) and every counterexample goes through the same two replays. distinct_nontrivial = distinct (system, witness) pairs.".into()
    }
    fn assumptions(&self) -> Vec<String> {
        vec!["models come from z3 with randomised seeds plus explicit diversification by the reference solver; every sat model is a legal answer of a conforming solver".into()]
    }
    fn prepare(&self, _tier: Tier) -> Result<(), String> {
        install_solvers()
    }
    fn shard_begin(&self, _sh: &mut Shard) {
        use_refsolver_path();
    }
    fn shard_end(&self, _sh: &mut Shard) {
        stop_z3_server();
    }
    fn nshards(&self, _tier: Tier) -> u64 {
        8
    }
    fn shard_timeout_s(&self, tier: Tier) -> u64 {
        tier.pick(1800, 6 * 3600)
    }
    fn run_case(&self, sh: &mut Shard, case: &CaseId) {
        let mut rng = Rng::new(sh.case_seed());
        if case.mode == "corpus" {
            corpus_case(sh, &mut rng, case.n as usize);
            return;
        }
        if case.mode == "wide" {
            wide_case(sh, &mut rng);
            return;
        }
        let mut ctx = Context::default();
        let cfg = mc_sys_cfg(&mut rng);
        let gs = if rng.chance(1, 2) { crate::wl::sys::gen_rich_system(&mut rng, &mut ctx, &cfg, 4) } else { gen_system(&mut rng, &mut ctx, &cfg, "") };
        let sys = gs.sys;
        let label = describe(&ctx, &sys);
        let Ok(reach) = reach_for(&ctx, &sys, 6, false) else { return };
        let d = match reach.min_bad_depth {
            Some(d) if d <= 5 => d,
            other => {
                // no bad state within reach: a failure reported here cannot have a genuine witness (the wrong verdict
                // itself is C02's finding; whatever witness comes with it is judged here)
                sh.count("systems_without_reachable_bad", 1);
                let k = match other {
                    Some(d) => (d as u64 - 1).min(4),
                    None => 4,
                };
                let persona = *rng.pick(&PERSONAS);
                let cfgm = McCfg { persona, individually: rng.flip(), check_constraints: false, k_max: k, solver_seed: rng.next() % 100_000, diversify: 0, core_mode: "minimal" };
                let run = run_bmc(&mut ctx, &sys, &cfgm, &sh.workdir.clone(), &format!("c03s_{}", sh.cur.n));
                sh.count("bmc_runs_on_safe_systems", 1);
                if let Verdict::Fail(w) = &run.verdict {
                    if let Err((kind, text)) = validate_witness(&ctx, &sys, w) {
                        let wt = util::catch(|| patronus::btor2::witness_to_string(w)).unwrap_or_else(|_| "<unprintable>".into());
                        sh.violation(format!("C03|invalid-witness|{kind}"), format!("{text} (system without a reachable bad state within {k} steps; persona={persona} k={k})\n{label}--- witness\n{wt}"), json!({}));
                    }
                }
                let _ = std::fs::remove_file(&run.replay);
                let _ = std::fs::remove_file(&run.log);
                return;
            }
        };
        sh.count("failing_systems", 1);
        sh.hist("first_bad_depth", &d.to_string());
        for run_i in 0..8u64 {
            let persona = PERSONAS[(run_i % 4) as usize];
            let individually = run_i >= 4;
            let k = if run_i % 2 == 0 { d as u64 } else { d as u64 + 1 };
            let k = k.max(1);
            let cfgm = McCfg { persona, individually, check_constraints: false, k_max: k, solver_seed: rng.next() % 100_000, diversify: if run_i % 3 == 0 { 0 } else { 4 }, core_mode: "minimal" };
            let run = run_bmc(&mut ctx, &sys, &cfgm, &sh.workdir.clone(), &format!("c03_{}", sh.cur.n));
            sh.count("bmc_runs", 1);
            let cfg_txt = format!("persona={persona} individually={individually} k={k} seed={} diversify={}", cfgm.solver_seed, cfgm.diversify);
            match &run.verdict {
                Verdict::Fail(w) => {
                    match validate_witness(&ctx, &sys, w) {
                        Ok(last) => {
                            sh.distinct(util::mix(&[util::hash_str(&label), util::hash_str(&patronus::btor2::witness_to_string(w))]));
                            sh.count("witnesses_validated", 1);
                            sh.hist("witness_length", &(last + 1).to_string());
                            if let Err(d) = replay_in_interpreter(&ctx, &sys, w) {
                                sh.violation("C03|interpreter-disagrees", format!("{d} ({cfg_txt})\n{label}--- witness\n{}", patronus::btor2::witness_to_string(w)), json!({}));
                                return;
                            }
                            if sh.want_sample() {
                                sh.sample(json!({"system": label, "witness": patronus::btor2::witness_to_string(w), "config": cfg_txt}));
                            }
                        }
                        Err((kind, text)) => {
                            let wt = util::catch(|| patronus::btor2::witness_to_string(w)).unwrap_or_else(|_| "<unprintable>".into());
                            sh.violation(format!("C03|invalid-witness|{kind}"), format!("{text} ({cfg_txt})\n{label}--- witness\n{wt}"), json!({}));
                            return;
                        }
                    }
                }
                other => {
                    if budget_exceeded(other) {
                        backend_trouble(sh, other, &cfg_txt);
                        return;
                    }
                    let events = read_log(&run.log);
                    if first_rejection(&events).map(|r| r.1.starts_with("persona")).unwrap_or(false) {
                        sh.count("runs_without_verdict_known_persona_limit", 1);
                        continue;
                    }
                    // no failure reported although one exists: that is C02's finding; counted here
                    sh.count("runs_without_fail_verdict", 1);
                }
            }
            let _ = std::fs::remove_file(&run.replay);
            let _ = std::fs::remove_file(&run.log);
        }
    }
    fn finalize(&self, m: &mut Merged, tier: Tier) {
        m.floor("witnesses validated", m.c("witnesses_validated"), tier.pick(3_000, 200_000));
        m.floor("witnesses with 65-200 bit values validated", m.c("wide_value_witnesses_validated"), tier.pick(60, 3_000));
        m.floor("witnesses of shipped designs validated", m.c("corpus_witnesses_validated"), tier.pick(30, 40));
        m.floor("runs that should have failed but gave another verdict (must be 0 here; C02 reports them)", (m.c("runs_without_fail_verdict") == 0) as u64, 1);
    }
}

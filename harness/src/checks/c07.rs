//! C07 The simulator executes the transition-system semantics

use super::c06::value_diff;
use super::common::*;
use crate::refsem::bv::{ArrV, Bv, Val};
use crate::refsem::expr_eval::{self as r2, baa_from_bv, bv_from_baa};
use crate::refsem::sim::RefSim;
use crate::runner::*;
use crate::util::{self, Rng};
use crate::wl::expr::{lit_shape, s_type};
use crate::wl::sys::{SysCfg, all_roots, describe, gen_system};
use baa::{ArrayOps, Value};
use num_bigint::BigUint;
use patronus::expr::{Context, ExprRef, Type, TypeCheck};
use patronus::sim::{InitKind, Interpreter, Simulator};
use serde_json::json;

pub struct C07;

pub fn val_from_value(v: &Value) -> Val {
    match v {
        Value::BitVec(b) => Val::B(bv_from_baa(b)),
        Value::Array(a) => {
            let (iw, dw) = (a.index_width(), a.data_width());
            let mut arr = ArrV { iw, dw, default: BigUint::from(0u32), map: Default::default() };
            assert!(iw <= 12);
            for i in 0..(1u64 << iw) {
                let d = a.select(&baa_from_bv(&Bv::from_u64(iw, i)));
                arr.map.insert(BigUint::from(i), bv_from_baa(&d).v);
            }
            Val::A(arr)
        }
    }
}

impl Check for C07 {
    fn id(&self) -> &'static str {
        "C07"
    }
    fn work(&self, tier: Tier) -> Vec<WorkItem> {
        vec![WorkItem { mode: "corpus", count: 3 * super::c11::corpus_files().len() as u64 }, WorkItem { mode: "hist", count: tier.pick(150_000, 5_000_000) }]
    }
    fn evaluations_counter(&self) -> &'static str {
        "reads_compared"
    }
    fn rule(&self) -> String {
        "G2 transition systems (<=4 states incl. array states, <=3 inputs, init chains reading earlier states, const states, states without a next function (in half of the systems; they keep their value) at any position among the states, shared sub-terms; widths up to 131 bits (a third of the systems use multi-word values; multiplications wider than 128 bits are not generated); no div/rem and no array equality because the evaluator does not implement / mis-implements them, which is C06 territory) x operation histories of 5..60 operations {init(Zero|Random(seed)), set(input), step, take_snapshot, restore_snapshot(any earlier id, repeatedly, out of order), re-init}; after EVERY operation every root expression, every state/input symbol and up to 6 inner nodes are read through Simulator::get and compared with the reference simulator R3. Random init: free values are read back (seed-defined), states with init must equal their init expression, and a fresh interpreter with the same seed must give the same values. mode corpus: the shipped btor2 designs that stay inside that operator domain (memories up to 2^12 cells, no array-typed inputs) get three such histories each. distinct_nontrivial = distinct (system, history) pairs with at least one step and one input change.".into()
    }
    fn assumptions(&self) -> Vec<String> {
        vec![
            "after restore_snapshot the history sets every input again before reading (the interface documents snapshots as excluding inputs, the implementation restores them; both readings agree on such histories)".into(),
            "every state has a next function (states without one are left unchanged by the implementation; the statement does not define them)".into(),
        ]
    }
    fn run_case(&self, sh: &mut Shard, case: &CaseId) {
        let mut rng = Rng::new(sh.case_seed());
        let mut ctx = Context::default();
        let sys = if case.mode == "corpus" {
            // the shipped designs (no div/rem, no array equality, memories of at most 2^12 cells: see the rule)
            let files = super::c11::corpus_files();
            let Some(path) = files.get(case.n as usize % files.len().max(1)) else { return };
            let Ok(text) = std::fs::read_to_string(path) else { return };
            if text.len() > sh.tier.pick(60_000, 120_000) {
                sh.count("corpus_files_skipped_for_size", 1);
                return;
            }
            let Ok(Some(sys)) = util::catch(|| patronus::btor2::parse_str(&mut ctx, &text, Some("corpus"))) else { return };
            let nodes = r2::post_order(&ctx, &all_roots(&sys));
            let outside = nodes.iter().any(|e| {
                matches!(r2::op_name(&ctx[*e]), "udiv" | "sdiv" | "urem" | "srem" | "smod" | "arreq")
                    || matches!(e.get_type(&ctx), Type::Array(a) if a.index_width > 12)
                    || (r2::op_name(&ctx[*e]) == "mul" && matches!(e.get_type(&ctx), Type::BV(w) if w > 128))
            });
            // (array-typed inputs - states of the file without init and next - cannot be set again after a restore,
            // which the histories rely on, see the assumptions)
            let outside = outside || sys.inputs.iter().any(|i| matches!(i.get_type(&ctx), Type::Array(_)));
            if outside {
                sh.count("corpus_files_outside_the_domain", 1);
                return;
            }
            sh.count("corpus_histories", 1);
            sys
        } else {
            let mut cfg = SysCfg::default();
            cfg.divrem = false;
            // states without a next function keep their value (there is nothing to replace it with)
            cfg.nextless_states = rng.chance(1, 2);
            cfg.array_eq = false;
            cfg.array_inputs = false;
            cfg.max_state_bits = 16;
            cfg.max_input_bits = 8;
            cfg.max_bv_width = *rng.pick(&[4u32, 4, 8, 32, 65, 129]);
            if cfg.max_bv_width > 8 {
                cfg.max_state_bits = 100 * cfg.max_bv_width / 32;
                cfg.max_input_bits = 70 * cfg.max_bv_width / 32;
            }
            gen_system(&mut rng, &mut ctx, &cfg, "").sys
        };
        // what is read after every operation
        let roots = all_roots(&sys);
        let mut reads: Vec<ExprRef> = roots.clone();
        reads.extend(sys.states.iter().map(|s| s.symbol));
        reads.extend(sys.inputs.iter().copied());
        let inner: Vec<ExprRef> = r2::post_order(&ctx, &roots).into_iter().filter(|e| !ctx[*e].is_symbol()).collect();
        for _ in 0..6.min(inner.len()) {
            reads.push(*rng.pick(&inner));
        }
        reads.sort();
        reads.dedup();
        let ctx = ctx; // frozen from here on; the interpreter clones it
        let mut interp = Interpreter::new(&ctx, &sys);
        let mut rs = RefSim::new(&ctx, &sys);
        let mut log: Vec<String> = vec![];
        let nops = rng.range(5, 60);
        let mut snaps: Vec<(u32, usize)> = vec![];
        let mut did_step = false;
        let mut did_set = false;
        let mut tmpctx = ctx.clone(); // for interning checks inside value_diff

        let fail = |sh: &mut Shard, kind: &str, log: &[String], text: String| {
            let sig = format!("C07|{kind}");
            sh.violation(sig, format!("{}\nhistory: {}\n{}", text, log.join("; "), util::trunc(&describe(&ctx, &sys), 6000)), json!({}));
        };

        for opi in 0..=nops {
            // operation 0 is always an init
            let op = if opi == 0 { 0 } else { rng.below(20) };
            let res: Result<(), util::PanicInfo> = match op {
                0 => {
                    let kind = if rng.flip() { InitKind::Zero } else { InitKind::Random(rng.next() % 1000) };
                    log.push(format!("init({kind:?})"));
                    sh.hist("ops", "init");
                    let r = util::catch(|| interp.init(kind));
                    if r.is_ok() {
                        match kind {
                            InitKind::Zero => {
                                let _ = rs.init(|s| match s_type(&ctx, s) {
                                    Type::BV(w) => Val::B(Bv::zero(w)),
                                    Type::Array(a) => Val::A(ArrV::constant(a.index_width, &Bv::zero(a.data_width))),
                                });
                            }
                            InitKind::Random(_) => {
                                // seed-defined free values are read back
                                let mut rb: rustc_hash::FxHashMap<ExprRef, Val> = Default::default();
                                let mut second = Interpreter::new(&ctx, &sys);
                                second.init(kind);
                                let mut bad = None;
                                for s in sys.states.iter().map(|s| s.symbol).chain(sys.inputs.iter().copied()) {
                                    match util::catch(|| (interp.get(s), second.get(s))) {
                                        Ok((v, v2)) => {
                                            if v != v2 {
                                                bad = Some(format!("init(Random) is not deterministic for {}", r2::render(&ctx, s)));
                                            }
                                            rb.insert(s, val_from_value(&v));
                                        }
                                        Err(p) => bad = Some(format!("panic reading {} after init: {} {}", r2::render(&ctx, s), p.loc(), p.msg)),
                                    }
                                }
                                if let Some(b) = bad {
                                    fail(sh, "random-init", &log, b);
                                    return;
                                }
                                sh.count("random_inits_read_back", 1);
                                let _ = rs.init(|s| rb[&s].clone());
                            }
                        }
                    }
                    r
                }
                1..=5 => {
                    let bvin: Vec<ExprRef> = sys.inputs.iter().copied().filter(|i| matches!(s_type(&ctx, *i), Type::BV(_))).collect();
                    if bvin.is_empty() {
                        continue;
                    }
                    let i = *rng.pick(&bvin);
                    let Type::BV(w) = s_type(&ctx, i) else { unreachable!() };
                    let v = Bv::new(w, lit_shape(&mut rng, w));
                    log.push(format!("set({}, {})", r2::render(&ctx, i), v.show()));
                    sh.hist("ops", "set");
                    did_set = true;
                    rs.set(i, Val::B(v.clone()));
                    util::catch(|| interp.set(i, &baa_from_bv(&v)))
                }
                6..=12 => {
                    log.push("step".into());
                    sh.hist("ops", "step");
                    did_step = true;
                    let _ = rs.step();
                    util::catch(|| interp.step())
                }
                13..=15 => {
                    log.push(format!("snapshot#{}", snaps.len()));
                    sh.hist("ops", "take_snapshot");
                    let rid = rs.take_snapshot();
                    match util::catch(|| interp.take_snapshot()) {
                        Ok(id) => {
                            snaps.push((id, rid));
                            Ok(())
                        }
                        Err(p) => Err(p),
                    }
                }
                _ => {
                    if snaps.is_empty() {
                        continue;
                    }
                    let k = rng.usize(snaps.len());
                    let (id, rid) = snaps[k];
                    log.push(format!("restore#{k}"));
                    sh.hist("ops", "restore_snapshot");
                    rs.restore_snapshot(rid);
                    let mut r = util::catch(|| interp.restore_snapshot(id));
                    // set every bit-vector input again (see assumptions)
                    for i in sys.inputs.iter().copied() {
                        if let Type::BV(w) = s_type(&ctx, i) {
                            let v = Bv::new(w, lit_shape(&mut rng, w));
                            rs.set(i, Val::B(v.clone()));
                            if r.is_ok() {
                                r = util::catch(|| interp.set(i, &baa_from_bv(&v)));
                            }
                        }
                    }
                    r
                }
            };
            if let Err(p) = res {
                if p.in_harness() {
                    sh.inconclusive(format!("harness panic {} {}", p.loc(), p.msg));
                } else {
                    fail(sh, &format!("panic|{}", p.loc()), &log, format!("panic in the simulator at {}: {}", p.loc(), util::trunc(&p.msg, 200)));
                }
                return;
            }
            // read everything
            let want = match rs.get_many(&reads) {
                Ok(w) => w,
                Err(e) => {
                    sh.inconclusive(format!("reference simulator failed: {}", e.0));
                    return;
                }
            };
            for (e, w) in reads.iter().zip(want.iter()) {
                sh.count("reads_compared", 1);
                match util::catch(|| interp.get(*e)) {
                    Err(p) => {
                        fail(sh, &format!("panic-in-get|{}", p.loc()), &log, format!("get({}) panicked at {}: {}", r2::render(&ctx, *e), p.loc(), util::trunc(&p.msg, 200)));
                        return;
                    }
                    Ok(got) => {
                        if let Some((kind, d)) = value_diff(&mut tmpctx, &got, w) {
                            let last = log.last().cloned().unwrap_or_default();
                            let opk = last.split(['(', '#']).next().unwrap_or("").to_string();
                            let role = role_of(&sys, *e);
                            fail(sh, &format!("{kind}|after={opk}|{role}"), &log, format!("get({}) after `{}`: {}", r2::render(&ctx, *e), last, d));
                            return;
                        }
                    }
                }
            }
        }
        if did_step && did_set {
            sh.distinct(util::hash_str(&format!("{}{}", describe(&ctx, &sys), log.join(";"))));
        }
        if sh.want_sample() {
            sh.sample(json!({"system": describe(&ctx, &sys), "history": log.join("; "), "reads_per_op": reads.len()}));
        }
    }
    fn finalize(&self, m: &mut Merged, tier: Tier) {
        for op in ["init", "set", "step", "take_snapshot", "restore_snapshot"] {
            m.floor(&format!("operations of kind {op}"), m.h("ops", op), tier.pick(60_000, 2_000_000));
        }
        m.floor("random inits read back", m.c("random_inits_read_back"), tier.pick(30_000, 1_000_000));
        m.floor("histories on shipped designs", m.c("corpus_histories"), tier.pick(150, 200));
    }
}

fn role_of(sys: &patronus::system::TransitionSystem, e: ExprRef) -> &'static str {
    if sys.states.iter().any(|s| s.symbol == e) {
        "state"
    } else if sys.inputs.contains(&e) {
        "input"
    } else {
        "expr"
    }
}

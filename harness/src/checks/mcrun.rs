//! shared driver for the solver-backed checks (C02, C03, C04, C10, C15)

use crate::refsem::bv::{ArrV, Bv, Val};
use crate::refsem::expr_eval::{self as r2, Env, bv_from_baa};
use crate::refsem::reach::{self, Reach};
use crate::util;
use baa::{ArrayOps, Value};
use num_bigint::BigUint;
use patronus::expr::{Context, ExprRef, Type};
use patronus::mc::{InitValue, ModelCheckResult, Witness, bmc, pdr};
use patronus::smt::{BITWUZLA, CVC5, Solver, SmtLibSolver, YICES2, Z3};
use patronus::system::TransitionSystem;
use std::path::{Path, PathBuf};

pub const SOLVER_BIN_DIR: &str = "/verif/target/solverbin";
pub const PERSONAS: [&str; 4] = ["bitwuzla", "yices-smt2", "z3", "cvc5"];

pub fn solver_by_name(name: &str) -> SmtLibSolver {
    match name {
        "bitwuzla" => BITWUZLA,
        "yices-smt2" => YICES2,
        "z3" => Z3,
        "cvc5" => CVC5,
        _ => panic!("unknown persona"),
    }
}

/// installs refsolver under the four solver names and puts that directory first on PATH
pub fn install_solvers() -> Result<(), String> {
    let dir = Path::new(SOLVER_BIN_DIR);
    std::fs::create_dir_all(dir).map_err(|e| e.to_string())?;
    let exe = std::env::current_exe().map_err(|e| e.to_string())?;
    let refsolver = exe.parent().unwrap().join("refsolver");
    // (a private copy of vcheck, as made by tools/run_thorough.sh, uses the refsolver of the regular build)
    let refsolver = if refsolver.exists() { refsolver } else { std::path::PathBuf::from("/verif/target/release/refsolver") };
    if !refsolver.exists() {
        return Err(format!("{} does not exist", refsolver.display()));
    }
    for p in PERSONAS {
        let link = dir.join(p);
        let ok = std::fs::read_link(&link).map(|t| t == refsolver).unwrap_or(false);
        if !ok {
            let _ = std::fs::remove_file(&link);
            std::os::unix::fs::symlink(&refsolver, &link).map_err(|e| format!("symlink {}: {e}", link.display()))?;
        }
    }
    Ok(())
}

pub fn use_refsolver_path() {
    let old = std::env::var("PATH").unwrap_or_default();
    if !old.starts_with(SOLVER_BIN_DIR) {
        // SAFETY: shards are single-threaded
        unsafe { std::env::set_var("PATH", format!("{SOLVER_BIN_DIR}:{old}")) };
    }
}

thread_local! {
    static Z3_SERVER: std::cell::RefCell<Option<(std::process::Child, std::fs::File, std::fs::File)>> = const { std::cell::RefCell::new(None) };
}

/// one long-lived z3 per shard, reached by refsolver through two FIFOs (see refsolver.rs)
pub fn ensure_z3_server(workdir: &Path) {
    Z3_SERVER.with(|z| {
        let mut z = z.borrow_mut();
        if let Some((child, _, _)) = z.as_mut() {
            if let Ok(None) = child.try_wait() {
                return;
            }
        }
        let fin = workdir.join("z3.in");
        let fout = workdir.join("z3.out");
        let _ = std::fs::remove_file(&fin);
        let _ = std::fs::remove_file(&fout);
        let mk = |p: &Path| {
            let c = std::ffi::CString::new(p.to_str().unwrap()).unwrap();
            unsafe { libc::mkfifo(c.as_ptr(), 0o600) }
        };
        if mk(&fin) != 0 || mk(&fout) != 0 {
            return;
        }
        // keep both ends open here so that neither z3 nor a refsolver session ever sees EOF / SIGPIPE
        let hold_in = std::fs::OpenOptions::new().read(true).write(true).open(&fin);
        let hold_out = std::fs::OpenOptions::new().read(true).write(true).open(&fout);
        let (Ok(hold_in), Ok(hold_out)) = (hold_in, hold_out) else { return };
        let (Ok(cin), Ok(cout)) = (std::fs::File::open(&fin), std::fs::OpenOptions::new().write(true).open(&fout)) else { return };
        let child = std::process::Command::new("/usr/bin/z3")
            .args(["-in", "sat.phase=random", "smt.phase_selection=5", "-t:20000"])
            .stdin(std::process::Stdio::from(cin))
            .stdout(std::process::Stdio::from(cout))
            .stderr(std::process::Stdio::null())
            .spawn();
        if let Ok(child) = child {
            set_env("REFSOLVER_Z3_FIFO_IN", fin.to_str().unwrap());
            set_env("REFSOLVER_Z3_FIFO_OUT", fout.to_str().unwrap());
            *z = Some((child, hold_in, hold_out));
        }
    });
}

pub fn stop_z3_server() {
    Z3_SERVER.with(|z| {
        if let Some((mut child, _, _)) = z.borrow_mut().take() {
            let _ = child.kill();
            let _ = child.wait();
        }
    });
    unset_env("REFSOLVER_Z3_FIFO_IN");
    unset_env("REFSOLVER_Z3_FIFO_OUT");
}

pub fn set_env(k: &str, v: &str) {
    unsafe { std::env::set_var(k, v) };
}
pub fn unset_env(k: &str) {
    unsafe { std::env::remove_var(k) };
}

#[derive(Debug)]
pub enum Verdict {
    Success,
    Fail(Witness),
    Unknown,
    Err(String),
    Panic(util::PanicInfo),
}

impl Verdict {
    pub fn name(&self) -> &'static str {
        match self {
            Verdict::Success => "success",
            Verdict::Fail(_) => "fail",
            Verdict::Unknown => "unknown",
            Verdict::Err(_) => "error",
            Verdict::Panic(_) => "panic",
        }
    }
}

pub struct McRun {
    pub verdict: Verdict,
    pub replay: PathBuf,
    pub log: PathBuf,
}

pub struct McCfg<'a> {
    pub persona: &'a str,
    pub individually: bool,
    pub check_constraints: bool,
    pub k_max: u64,
    pub solver_seed: u64,
    pub diversify: u64,
    pub core_mode: &'a str,
}

/// runs patronus' bmc against refsolver through the real text protocol
pub fn run_bmc(ctx: &mut Context, sys: &TransitionSystem, cfg: &McCfg, workdir: &Path, tag: &str) -> McRun {
    let replay = workdir.join(format!("{tag}.smt2"));
    let log = workdir.join(format!("{tag}.log"));
    let _ = std::fs::remove_file(&log);
    ensure_z3_server(workdir);
    set_env("REFSOLVER_LOG", log.to_str().unwrap());
    set_env("REFSOLVER_SEED", &cfg.solver_seed.to_string());
    set_env("REFSOLVER_DIVERSIFY", &cfg.diversify.to_string());
    set_env("REFSOLVER_CORE", cfg.core_mode);
    let solver = solver_by_name(cfg.persona);
    let verdict = match util::catch(|| {
        let file = std::fs::File::create(&replay).ok();
        let mut smt_ctx = solver.start(file).map_err(|e| format!("{e}"))?;
        let r = bmc(ctx, &mut smt_ctx, sys, cfg.check_constraints, cfg.individually, cfg.k_max).map_err(|e| format!("{e}"));
        drop(smt_ctx);
        r
    }) {
        Err(p) => Verdict::Panic(p),
        Ok(Err(e)) => Verdict::Err(e),
        Ok(Ok(ModelCheckResult::Success)) => Verdict::Success,
        Ok(Ok(ModelCheckResult::Unknown)) => Verdict::Unknown,
        Ok(Ok(ModelCheckResult::Fail(w))) => Verdict::Fail(w),
    };
    McRun { verdict, replay, log }
}

/// events of the refsolver log
pub fn read_log(path: &Path) -> Vec<serde_json::Value> {
    std::fs::read_to_string(path).unwrap_or_default().lines().filter_map(|l| serde_json::from_str(l).ok()).collect()
}

/// first command the monitor rejected: (command text, reason)
pub fn first_rejection(events: &[serde_json::Value]) -> Option<(String, String)> {
    events.iter().find_map(|e| e.get("err").and_then(|r| r.as_str()).map(|r| (e["cmd"].as_str().unwrap_or("").to_string(), r.to_string())))
}

pub fn internal_problem(events: &[serde_json::Value]) -> Option<String> {
    events.iter().find_map(|e| e.get("internal").and_then(|r| r.as_str()).map(|s| s.to_string()))
}

pub fn budget_exceeded(v: &Verdict) -> bool {
    matches!(v, Verdict::Err(e) if e.contains("refsolver-budget") || e.contains("refsolver-internal") || e.contains("refsolver-badmodel"))
}

/// a run without verdict because of the reference solver itself: over its budget (the case is inconclusive) or the
/// backend handed out a "model" that does not satisfy the query it answered sat to (seen with z3 4.8.12 on a constant
/// array with a symbolic element: the run is skipped and counted, the reference solver never passes such values on)
pub fn backend_trouble(sh: &mut crate::runner::Shard, v: &Verdict, cfg_txt: &str) {
    if matches!(v, Verdict::Err(e) if e.contains("refsolver-badmodel")) {
        sh.count("runs_skipped_because_the_backend_model_was_not_a_model", 1);
    } else {
        sh.inconclusive(format!("reference solver budget exceeded ({cfg_txt})"));
    }
}

pub fn val_of_value(v: &Value) -> Val {
    match v {
        Value::BitVec(b) => Val::B(bv_from_baa(b)),
        Value::Array(a) => {
            let mut arr = ArrV { iw: a.index_width(), dw: a.data_width(), default: BigUint::from(0u32), map: Default::default() };
            if a.index_width() <= 12 {
                for i in 0..(1u64 << a.index_width()) {
                    let d = a.select(&r2::baa_from_bv(&Bv::from_u64(a.index_width(), i)));
                    arr.map.insert(BigUint::from(i), bv_from_baa(&d).v);
                }
            }
            Val::A(arr)
        }
    }
}

fn type_matches(v: &Val, t: Type) -> bool {
    match (v, t) {
        (Val::B(b), Type::BV(w)) => b.w == w,
        (Val::A(a), Type::Array(t)) => a.iw == t.index_width && a.dw == t.data_width,
        _ => false,
    }
}

/// C03: is the witness a real execution of `sys` that hits a bad state? Err((kind, text)) otherwise.
pub fn validate_witness(ctx: &Context, sys: &TransitionSystem, w: &Witness) -> Result<usize, (String, String)> {
    let e = |k: &str, t: String| Err((k.to_string(), t));
    // shape: names and order
    let want_states: Vec<Option<String>> = sys.states.iter().map(|s| ctx.get_symbol_name(s.symbol).map(|x| x.to_string())).collect();
    let want_inputs: Vec<Option<String>> = sys.inputs.iter().map(|s| ctx.get_symbol_name(*s).map(|x| x.to_string())).collect();
    if w.init_names != want_states {
        return e("state-names", format!("witness state names {:?}, system {:?}", w.init_names, want_states));
    }
    if w.input_names != want_inputs {
        return e("input-names", format!("witness input names {:?}, system {:?}", w.input_names, want_inputs));
    }
    if w.init.len() != sys.states.len() {
        return e("init-count", format!("{} initial values for {} states", w.init.len(), sys.states.len()));
    }
    if w.inputs.is_empty() {
        return e("no-steps", "witness has no steps".into());
    }
    if w.failed_safety.is_empty() {
        return e("no-failed-property", "witness lists no failed property".into());
    }
    let last = w.inputs.len() - 1;
    // initial state
    let mut env = Env::default();
    for (k, (s, iv)) in sys.states.iter().zip(w.init.iter()).enumerate() {
        let v = match iv {
            InitValue::BitVec(b) => Val::B(bv_from_baa(b)),
            InitValue::Array(a, _) => val_of_value(&Value::Array(a.clone())),
            InitValue::None => return e("init-missing", format!("no initial value for state {k}")),
        };
        if !type_matches(&v, crate::wl::expr::s_type(ctx, s.symbol)) {
            return e("init-type", format!("initial value of state {k} has the wrong type: {}", v.show()));
        }
        env.insert(s.symbol, v);
    }
    let input_env = |step: usize, env: &mut Env| -> Result<(), (String, String)> {
        if w.inputs[step].len() != sys.inputs.len() {
            return Err(("input-count".into(), format!("step {step}: {} input values for {} inputs", w.inputs[step].len(), sys.inputs.len())));
        }
        for (k, (i, v)) in sys.inputs.iter().zip(w.inputs[step].iter()).enumerate() {
            let Some(v) = v else { return Err(("input-missing".into(), format!("step {step}: no value for input {k}"))) };
            let v = val_of_value(v);
            if !type_matches(&v, crate::wl::expr::s_type(ctx, *i)) {
                return Err(("input-type".into(), format!("step {step}: value of input {k} has the wrong type: {}", v.show())));
            }
            env.insert(*i, v);
        }
        Ok(())
    };
    input_env(0, &mut env)?;
    // init expressions (may read earlier states and step-0 inputs)
    for (k, s) in sys.states.iter().enumerate() {
        if let Some(init) = s.init {
            let want = r2::eval(ctx, &env, init).map_err(|x| ("eval".to_string(), x.0))?;
            if want != env[&s.symbol] {
                return e("init-value", format!("state {k} starts at {} but its init expression gives {}", env[&s.symbol].show(), want.show()));
            }
        }
    }
    for step in 0..=last {
        if step > 0 {
            input_env(step, &mut env)?;
        }
        for (k, c) in sys.constraints.iter().enumerate() {
            if !r2::eval(ctx, &env, *c).map_err(|x| ("eval".to_string(), x.0))?.bv().is_true() {
                return e("constraint-violated", format!("constraint {k} is false at step {step}"));
            }
        }
        if step == last {
            let holds: Vec<u32> = sys.bad_states.iter().enumerate().filter(|(_, b)| r2::eval(ctx, &env, **b).map(|v| v.bv().is_true()).unwrap_or(false)).map(|(k, _)| k as u32).collect();
            if holds.is_empty() {
                return e("no-bad-state", format!("no bad state holds at the last step {last}"));
            }
            let mut listed = w.failed_safety.clone();
            listed.sort();
            if listed != holds {
                return e("failed-list", format!("witness lists failed properties {:?}, but exactly {:?} hold at the last step", w.failed_safety, holds));
            }
        } else {
            let mut next = vec![];
            for s in &sys.states {
                if let Some(n) = s.next {
                    next.push((s.symbol, r2::eval(ctx, &env, n).map_err(|x| ("eval".to_string(), x.0))?));
                }
            }
            for (s, v) in next {
                env.insert(s, v);
            }
        }
    }
    Ok(last)
}

/// differential replay of a witness in patronus' own interpreter: bad/constraint values must agree
pub fn replay_in_interpreter(ctx: &Context, sys: &TransitionSystem, w: &Witness) -> Result<(), String> {
    use patronus::sim::{InitKind, Interpreter, Simulator};
    // the interpreter documents the five division/remainder operators as unimplemented
    let roots = crate::wl::sys::all_roots(sys);
    // (and its array equality compares defaults before contents: a known finding of C06 - extensionally equal arrays
    // with different defaults come out unequal - which would be re-reported here as a replay difference)
    if r2::post_order(ctx, &roots).iter().any(|n| matches!(r2::op_name(&ctx[*n]), "udiv" | "sdiv" | "urem" | "srem" | "smod" | "arreq")) {
        return Ok(());
    }
    // the interpreter cannot be given initial state values directly; use a copy of the system whose
    // init expressions are the witness values
    let mut ctx2 = ctx.clone();
    let mut sys2 = sys.clone();
    for (s, iv) in sys2.states.iter_mut().zip(w.init.iter()) {
        let lit = match iv {
            InitValue::BitVec(b) => ctx2.bv_lit(b),
            InitValue::Array(a, _) => ctx2.lit(Value::Array(a.clone())),
            InitValue::None => return Err("missing init".into()),
        };
        s.init = Some(lit);
    }
    let mut sim = Interpreter::new(&ctx2, &sys2);
    let mut rs = crate::refsem::sim::RefSim::new(&ctx2, &sys2);
    sim.init(InitKind::Zero);
    let zero = |s: ExprRef| super::c11::zero_val(crate::wl::expr::s_type(&ctx2, s));
    rs.init(zero).map_err(|e| e.0)?;
    for (step, ins) in w.inputs.iter().enumerate() {
        for (i, v) in sys.inputs.iter().zip(ins.iter()) {
            match v {
                Some(Value::BitVec(b)) => {
                    sim.set(*i, b);
                    rs.set(*i, Val::B(bv_from_baa(b)));
                }
                _ => return Ok(()), // array inputs cannot be set in the interpreter
            }
        }
        for (what, es) in [("bad", &sys.bad_states), ("constraint", &sys.constraints)] {
            for (k, e) in es.iter().enumerate() {
                let a = super::c07::val_from_value(&sim.get(*e));
                let b = rs.get(*e).map_err(|e| e.0)?;
                if a != b {
                    return Err(format!("step {step}: {what} {k} is {} in the interpreter but {} in the reference simulator", a.show(), b.show()));
                }
            }
        }
        sim.step();
        rs.step().map_err(|e| e.0)?;
    }
    Ok(())
}

pub fn reach_for(ctx: &Context, sys: &TransitionSystem, max_depth: usize, stop_at_fixpoint: bool) -> Result<Reach, String> {
    reach::explore(ctx, sys, &reach::ReachCfg { max_depth, stop_at_fixpoint })
}

/// runs patronus' pdr against refsolver through the real text protocol
pub fn run_pdr(ctx: &mut Context, sys: &TransitionSystem, cfg: &McCfg, disable_unsat_cores: bool, workdir: &Path, tag: &str) -> McRun {
    let replay = workdir.join(format!("{tag}.smt2"));
    let log = workdir.join(format!("{tag}.log"));
    let _ = std::fs::remove_file(&log);
    ensure_z3_server(workdir);
    set_env("REFSOLVER_LOG", log.to_str().unwrap());
    set_env("REFSOLVER_SEED", &cfg.solver_seed.to_string());
    set_env("REFSOLVER_DIVERSIFY", &cfg.diversify.to_string());
    set_env("REFSOLVER_CORE", cfg.core_mode);
    let solver = solver_by_name(cfg.persona);
    let verdict = match util::catch(|| {
        let mut smt_ctx = solver.start(None).map_err(|e| format!("{e}"))?;
        let r = pdr(ctx, &mut smt_ctx, sys, disable_unsat_cores).map_err(|e| format!("{e}"));
        drop(smt_ctx);
        r
    }) {
        Err(p) => Verdict::Panic(p),
        Ok(Err(e)) => Verdict::Err(e),
        Ok(Ok(ModelCheckResult::Success)) => Verdict::Success,
        Ok(Ok(ModelCheckResult::Unknown)) => Verdict::Unknown,
        Ok(Ok(ModelCheckResult::Fail(w))) => Verdict::Fail(w),
    };
    McRun { verdict, replay, log }
}

//! C19 e-graph rewrites are value-preserving

use super::common::show_env;
use crate::refsem::expr_eval::{self as r2};
use crate::runner::*;
use crate::util::{self, Rng};
use crate::wl::expr::{nth_env, random_env, symbol_bits};
use egg::{ENodeOrVar, Id, Language, RecExpr, Var};
use patronus::expr::{Context, Expr, ExprRef, TypeCheck};
use patronus_egraphs::{Arith, ArithRewrite, create_rewrites, from_arith, to_arith};
use serde_json::json;
use std::collections::BTreeMap;

pub struct C19;

fn var_name(v: &Var) -> String {
    v.to_string()
}

/// variables of both patterns, split into widths / signs / operands
fn rule_vars(r: &ArithRewrite) -> (Vec<Var>, Vec<Var>, Vec<Var>) {
    let (l, rr) = r.patterns();
    let mut seen: Vec<Var> = vec![];
    for n in l.as_ref().iter().chain(rr.as_ref().iter()) {
        if let ENodeOrVar::Var(v) = n {
            if !seen.contains(v) {
                seen.push(*v);
            }
        }
    }
    let (mut w, mut s, mut o) = (vec![], vec![], vec![]);
    for v in seen {
        let n = var_name(&v);
        if n.starts_with("?w") {
            w.push(v);
        } else if n.starts_with("?s") {
            s.push(v);
        } else {
            o.push(v);
        }
    }
    (w, s, o)
}

fn instantiate(p: &egg::PatternAst<Arith>, widths: &BTreeMap<Var, u32>, signs: &BTreeMap<Var, bool>) -> RecExpr<Arith> {
    let mut out: RecExpr<Arith> = RecExpr::default();
    let mut map: Vec<Id> = vec![];
    for n in p.as_ref().iter() {
        let id = match n {
            ENodeOrVar::ENode(e) => {
                let e2 = e.clone().map_children(|c| map[usize::from(c)]);
                out.add(e2)
            }
            ENodeOrVar::Var(v) => {
                if let Some(w) = widths.get(v) {
                    out.add((*w).into())
                } else if let Some(s) = signs.get(v) {
                    out.add(if *s { patronus_egraphs::Sign::Signed.into() } else { patronus_egraphs::Sign::Unsigned.into() })
                } else {
                    out.add(Arith::Symbol(var_name(v).trim_start_matches('?').to_string()))
                }
            }
        };
        map.push(id);
    }
    out
}

fn widths_assignments(n: usize, max: u32) -> impl Iterator<Item = Vec<u32>> {
    let total = (max as u64).pow(n as u32);
    (0..total).map(move |mut k| {
        let mut v = Vec::with_capacity(n);
        for _ in 0..n {
            v.push((k % max as u64) as u32 + 1);
            k /= max as u64;
        }
        v
    })
}

impl C19 {
    /// one instance of a rule; Ok(number of operand valuations judged) or Err(kind, text)
    fn instance(&self, ctx: &mut Context, r: &ArithRewrite, wv: &[Var], sv: &[Var], widths: &[u32], signs: &[bool], rng: Option<&mut Rng>) -> Result<Option<u64>, (String, String)> {
        let mut assign: Vec<(Var, u32)> = wv.iter().copied().zip(widths.iter().copied()).collect();
        assign.extend(sv.iter().copied().zip(signs.iter().map(|s| *s as u32)));
        let cond = util::catch(|| r.eval_condition(&assign)).map_err(|p| ("condition-panic".to_string(), format!("{} {}", p.loc(), p.msg)))?;
        if !cond {
            return Ok(None);
        }
        let wm: BTreeMap<Var, u32> = wv.iter().copied().zip(widths.iter().copied()).collect();
        let sm: BTreeMap<Var, bool> = sv.iter().copied().zip(signs.iter().copied()).collect();
        let (lp, rp) = r.patterns();
        let (li, ri) = (instantiate(lp, &wm, &sm), instantiate(rp, &wm, &sm));
        let desc = format!("lhs {li}  rhs {ri}");
        // derived widths (wlsh = wa + 2^wb - 1) explode quickly: instances beyond 300 bits are not lowered
        for e in [&li, &ri] {
            let mut w: Vec<u64> = vec![];
            for n in e.as_ref().iter() {
                let v = match n {
                    Arith::Width(x) => u32::from(*x) as u64,
                    Arith::WidthMaxPlus1([a, b]) => w[usize::from(*a)].max(w[usize::from(*b)]) + 1,
                    Arith::WidthLeftShift([a, b]) => {
                        let sh = w[usize::from(*b)];
                        if sh >= 20 { u64::MAX / 4 } else { w[usize::from(*a)] + (1u64 << sh) - 1 }
                    }
                    _ => 0,
                };
                w.push(v);
            }
            if w.iter().any(|x| *x > 300) {
                return Ok(None);
            }
        }
        let lowered = util::catch(|| (from_arith(ctx, &li), from_arith(ctx, &ri))).map_err(|p| ("lowering-panic".to_string(), format!("from_arith panicked at {}: {}\n{desc}", p.loc(), p.msg)))?;
        let (le, re) = lowered;
        for (side, e) in [("lhs", le), ("rhs", re)] {
            r2::deep_type_check(ctx, e).map_err(|m| ("ill-typed".to_string(), format!("{side} lowers to an ill-typed expression: {m}\n{desc}")))?;
        }
        if le.get_type(ctx) != re.get_type(ctx) {
            return Err(("width-differs".into(), format!("lhs has type {}, rhs {}\n{desc}", le.get_type(ctx), re.get_type(ctx))));
        }
        let syms = r2::symbols_of(ctx, &[le, re]);
        // the same operand must have one width on both sides
        let mut names: BTreeMap<String, u32> = BTreeMap::new();
        for s in &syms {
            if let Expr::BVSymbol { name, width } = &ctx[*s] {
                if let Some(w) = names.insert(ctx[*name].clone(), *width) {
                    if w != *width {
                        return Err(("operand-width-differs".into(), format!("operand {} is used with widths {w} and {width}\n{desc}", ctx[*name])));
                    }
                }
            }
        }
        let bits = symbol_bits(ctx, &syms).unwrap_or(99);
        let mut judged = 0;
        let mut check = |env: &r2::Env| -> Result<(), (String, String)> {
            let (a, b) = (r2::eval(ctx, env, le).map_err(|e| ("eval".to_string(), e.0))?, r2::eval(ctx, env, re).map_err(|e| ("eval".to_string(), e.0))?);
            if a != b {
                return Err(("unsound".into(), format!("lhs = {}, rhs = {} for {}\n{desc}\nlhs: {}\nrhs: {}", a.show(), b.show(), show_env(ctx, env), r2::render(ctx, le), r2::render(ctx, re))));
            }
            Ok(())
        };
        match rng {
            None => {
                if bits > 18 {
                    return Err(("harness".into(), format!("{bits} operand bits are too many for exhaustive evaluation")));
                }
                for k in 0..(1u64 << bits) {
                    check(&nth_env(ctx, &syms, k))?;
                    judged += 1;
                }
            }
            Some(rng) => {
                for _ in 0..24 {
                    check(&random_env(rng, ctx, &syms))?;
                    judged += 1;
                }
            }
        }
        Ok(Some(judged))
    }

    fn gen_arith_expr(&self, rng: &mut Rng, ctx: &mut Context, w: u32, depth: u32, nested_ext: &mut Vec<&'static str>) -> ExprRef {
        if depth == 0 {
            let name = format!("x{}_{w}", rng.below(3));
            return ctx.bv_symbol(&name, w);
        }
        let mut operand = |rng: &mut Rng, ctx: &mut Context, nested_ext: &mut Vec<&'static str>| -> ExprRef {
            let ow = rng.range(1, w as u64) as u32;
            let d = if rng.chance(1, 3) { depth - 1 } else { 0 };
            let base = self.gen_arith_expr(rng, ctx, ow, d, nested_ext);
            if ow == w {
                return base;
            }
            let total = w - ow;
            if total >= 2 && rng.chance(1, 6) {
                // nested extension
                let k = rng.range(1, total as u64 - 1) as u32;
                let (inner_signed, outer_signed) = (rng.flip(), rng.flip());
                let inner = ctx.extend(base, k, inner_signed);
                nested_ext.push(match (outer_signed, inner_signed) {
                    (true, true) | (false, false) => "same-kind",
                    (false, true) => "zext(sext)",
                    (true, false) => "sext(zext)",
                });
                ctx.extend(inner, total - k, outer_signed)
            } else {
                ctx.extend(base, total, rng.flip())
            }
        };
        let a = operand(rng, ctx, nested_ext);
        let b = operand(rng, ctx, nested_ext);
        match rng.below(6) {
            0 => ctx.add(a, b),
            1 => ctx.sub(a, b),
            2 => ctx.mul(a, b),
            3 => ctx.shift_left(a, b),
            4 => ctx.shift_right(a, b),
            _ => ctx.arithmetic_shift_right(a, b),
        }
    }
}

impl Check for C19 {
    fn id(&self) -> &'static str {
        "C19"
    }
    fn work(&self, tier: Tier) -> Vec<WorkItem> {
        let nrules = create_rewrites().len() as u64;
        vec![WorkItem { mode: "rule", count: nrules * 16 }, WorkItem { mode: "sampled", count: tier.pick(20_000, 600_000) }, WorkItem { mode: "roundtrip", count: tier.pick(60_000, 3_000_000) }, WorkItem { mode: "directed", count: 2 }]
    }
    fn evaluations_counter(&self) -> &'static str {
        "operand_valuations"
    }
    fn rule(&self) -> String {
        "mode rule (exhaustive in its scope): for every rule of create_rewrites(), ALL assignments of its width variables in 1..=4 (quick; 1..=5 thorough; 1..=8 (thorough 1..=10) for left-shift-mult whose condition needs wide outputs) x both values of every sign variable; where eval_condition holds both patterns are instantiated (operands -> symbols), lowered with the real from_arith, deep-type-checked and compared by the reference evaluator on ALL operand values. mode sampled: widths up to 66 with 24 corner/correlated operand valuations. mode roundtrip: expressions of the convertible fragment (add/sub/mul/shl/lshr/ashr over symbols and nested operators under zero/sign extension, widths 1..66, a sixth of the operands under nested extensions): from_arith(to_arith(e)) must have e's width and equal values (all valuations <= 12 symbol bits, else 24). distinct_nontrivial = distinct condition-true rule instances + distinct round-tripped expressions.".into()
    }
    fn assumptions(&self) -> Vec<String> {
        vec!["soundness above the exhaustive bound is sampled, not proven".into()]
    }
    fn run_case(&self, sh: &mut Shard, case: &CaseId) {
        let mut rng = Rng::new(sh.case_seed());
        let rules = create_rewrites();
        let mut ctx = Context::default();
        match case.mode.as_str() {
            "rule" => {
                let r = &rules[(case.n / 16) as usize];
                let part = case.n % 16;
                let (wv, sv, _) = rule_vars(r);
                let maxw = if r.name() == "left-shift-mult" { sh.tier.pick(8, 10) } else { sh.tier.pick(4, 5) };
                let (mut enumerated, mut cond_true) = (0u64, 0u64);
                for (idx, widths) in widths_assignments(wv.len(), maxw).enumerate() {
                    if idx as u64 % 16 != part {
                        continue;
                    }
                    for sk in 0..(1u64 << sv.len()) {
                        let signs: Vec<bool> = (0..sv.len()).map(|i| (sk >> i) & 1 == 1).collect();
                        enumerated += 1;
                        match self.instance(&mut ctx, r, &wv, &sv, &widths, &signs, None) {
                            Ok(None) => {}
                            Ok(Some(n)) => {
                                cond_true += 1;
                                sh.count("operand_valuations", n);
                                sh.distinct(util::mix(&[util::hash_str(r.name()), util::hash_str(&format!("{widths:?}{signs:?}"))]));
                            }
                            Err((kind, text)) => {
                                if kind == "harness" {
                                    sh.inconclusive(text);
                                } else {
                                    sh.violation(format!("C19|{kind}|{}", r.name()), format!("rule {} with widths {:?} = {:?}, signs {:?} = {:?}\n{text}", r.name(), wv.iter().map(var_name).collect::<Vec<_>>(), widths, sv.iter().map(var_name).collect::<Vec<_>>(), signs), json!({}));
                                }
                                return;
                            }
                        }
                    }
                    // keep the context small
                    if idx % 256 == 0 {
                        ctx = Context::default();
                    }
                }
                sh.hist_n("assignments_enumerated", r.name(), enumerated);
                sh.hist_n("condition_true_instances", r.name(), cond_true);
            }
            "sampled" => {
                let r = rng.pick(&rules);
                let (wv, sv, _) = rule_vars(r);
                let widths: Vec<u32> = wv.iter().map(|_| *rng.pick(&[1u32, 2, 3, 7, 8, 9, 16, 31, 32, 33, 63, 64, 65, 66])).collect();
                let signs: Vec<bool> = sv.iter().map(|_| rng.flip()).collect();
                // widths derived on the right-hand side must stay representable
                match self.instance(&mut ctx, r, &wv, &sv, &widths, &signs, Some(&mut rng)) {
                    Ok(Some(n)) => {
                        sh.count("operand_valuations", n);
                        sh.hist("sampled_condition_true", r.name());
                        sh.distinct(util::mix(&[util::hash_str(r.name()), util::hash_str(&format!("{widths:?}{signs:?}"))]));
                    }
                    Ok(None) => sh.hist("sampled_condition_false", r.name()),
                    Err((kind, text)) => {
                        if kind != "harness" {
                            sh.violation(format!("C19|{kind}|{}|sampled", r.name()), format!("rule {} with widths {:?}, signs {:?}\n{text}", r.name(), widths, signs), json!({}));
                        }
                    }
                }
            }
            "directed" => {
                // witnesses of the known findings: mixed nested extensions of an operand
                let x = ctx.bv_symbol("x", 2);
                let y = ctx.bv_symbol("y", 4);
                let inner = ctx.extend(x, 1, case.n == 0);
                let outer = ctx.extend(inner, 1, case.n != 0);
                let e = ctx.add(outer, y);
                self.roundtrip(sh, &mut ctx, &mut rng, e, &[if case.n == 0 { "zext(sext)" } else { "sext(zext)" }]);
            }
            _ => {
                let w = *rng.pick(&[1u32, 2, 3, 4, 5, 8, 13, 16, 32, 33, 64, 65, 66]);
                let mut nested = vec![];
                let d = rng.range(1, 3) as u32;
                let e = self.gen_arith_expr(&mut rng, &mut ctx, w, d, &mut nested);
                self.roundtrip(sh, &mut ctx, &mut rng, e, &nested);
            }
        }
    }
    fn finalize(&self, m: &mut Merged, tier: Tier) {
        let rules = create_rewrites();
        let min_true = rules.iter().map(|r| m.h("condition_true_instances", r.name())).min().unwrap_or(0);
        m.floor("condition-true instances of the least-covered rule (exhaustive part)", min_true, tier.pick(100, 200));
        m.floor("round trips", m.c("roundtrips"), tier.pick(50_000, 2_500_000));
        m.exhaustive = Some(true);
        m.extra.insert("exhaustive_scope".into(), json!("mode rule: all width/sign assignments up to the stated bound, all operand values"));
    }
}

impl C19 {
    fn roundtrip(&self, sh: &mut Shard, ctx: &mut Context, rng: &mut Rng, e: ExprRef, nested: &[&'static str]) {
        let mixed: Vec<&&str> = nested.iter().filter(|k| **k != "same-kind").collect();
        let disc = if mixed.is_empty() { "plain".to_string() } else if mixed.iter().all(|k| ***k == *"zext(sext)") { "operand-under-zext(sext)".into() } else if mixed.iter().all(|k| ***k == *"sext(zext)") { "operand-under-sext(zext)".into() } else { "operand-under-mixed-nested-extensions".into() };
        sh.count("roundtrips", 1);
        sh.hist("roundtrip_kinds", &disc);
        let back = match util::catch(|| {
            let a = to_arith(ctx, e);
            from_arith(ctx, &a)
        }) {
            Ok(b) => b,
            Err(p) => {
                sh.violation(format!("C19|roundtrip|panic|{}|{disc}", p.loc()), format!("to_arith/from_arith panicked at {}: {}\n{}", p.loc(), p.msg, r2::render(ctx, e)), json!({}));
                return;
            }
        };
        if back.get_type(ctx) != e.get_type(ctx) {
            sh.violation(format!("C19|roundtrip|width|{disc}"), format!("{} : {} came back as {} : {}", r2::render(ctx, e), e.get_type(ctx), r2::render(ctx, back), back.get_type(ctx)), json!({}));
            return;
        }
        if let Err(m) = r2::deep_type_check(ctx, back) {
            sh.violation(format!("C19|roundtrip|ill-typed|{disc}"), format!("{} came back ill-typed: {m}", r2::render(ctx, e)), json!({}));
            return;
        }
        let syms = r2::symbols_of(ctx, &[e, back]);
        let (envs, _) = crate::wl::expr::judging_envs(rng, ctx, &syms, 12, 24);
        for env in envs {
            sh.count("operand_valuations", 1);
            let (Ok(a), Ok(b)) = (r2::eval(ctx, &env, e), r2::eval(ctx, &env, back)) else {
                sh.violation(format!("C19|roundtrip|symbols-changed|{disc}"), format!("{} came back as {}", r2::render(ctx, e), r2::render(ctx, back)), json!({}));
                return;
            };
            if a != b {
                sh.violation(format!("C19|roundtrip|value|{disc}"), format!("{} = {} but after to_arith/from_arith {} = {} under {}", r2::render(ctx, e), a.show(), r2::render(ctx, back), b.show(), show_env(ctx, &env)), json!({}));
                return;
            }
        }
        if e != back || !nested.is_empty() {
            sh.distinct(util::hash_str(&r2::render(ctx, e)));
        }
        if sh.want_sample() {
            sh.sample(json!({"expr": r2::render(ctx, e), "arith": to_arith(ctx, e).to_string()}));
        }
    }
}

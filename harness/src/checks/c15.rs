//! C15 Solver faults surface as errors, never as verdicts or hangs

use super::c02::mc_sys_cfg;
use super::mcrun::*;
use crate::runner::*;
use crate::util::{self, Rng};
use crate::wl::sys::{describe, gen_system};
use patronus::expr::Context;
use patronus::smt::{CheckSatResponse, Solver, SolverContext, SolverMetaData};
use serde_json::json;
use std::time::{Duration, Instant};

pub struct C15;

pub const FAULT_KINDS: &[&str] = &[
    "error-len-0", "error-len-1", "error-len-5", "error-len-6", "error-len-7", "error-len-8", "error-len-40", "error-bar", "unknown", "empty-line", "truncated-then-exit", "exit-silently", "exit-nonzero-with-stderr", "garbage",
    "extra-paren",
];

pub const CMD_FAULT_KINDS: &[&str] = &["cmd-error", "cmd-error-exit", "cmd-exit"];
const CMD_FAULT_MESSAGE: &str = "injected-command-fault-message-with-(parens)";

const FAULT_MESSAGE: &str = "injected-fault-message-with-(parens)-and-some-more-text-to-be-long-enough";

/// executed in a child process: runs one job with the fault (if any) armed and prints one JSON line
pub fn child_main(spec: &str) {
    util::install_panic_hook();
    use_refsolver_path();
    let parts: Vec<&str> = spec.split(':').collect();
    let (job, seed, persona) = (parts[0], parts[1].parse::<u64>().unwrap_or(0), parts[2]);
    let mut rng = Rng::new(seed);
    let mut ctx = Context::default();
    let cfg = {
        let mut c = mc_sys_cfg(&mut rng);
        c.arrays = false;
        c.init_reads_inputs = false;
        c
    };
    let mut sys = gen_system(&mut rng, &mut ctx, &cfg, "").sys;
    let mut corpus_name = String::new();
    if job == "bmc-corpus" {
        // a shipped design: conversations with long runs (tens of kB) of commands that bear no response
        let files: Vec<std::path::PathBuf> = super::c11::corpus_files().into_iter().filter(|p| std::fs::metadata(p).map(|m| m.len() > 20_000 && m.len() < 250_000).unwrap_or(false)).collect();
        let path = &files[(seed as usize) % files.len().max(1)];
        ctx = Context::default();
        match std::fs::read_to_string(path).ok().and_then(|t| patronus::btor2::parse_str(&mut ctx, &t, Some("corpus"))) {
            Some(mut s) => {
                if s.bad_states.is_empty() {
                    // many of the larger designs carry no property: watch one bit of an output or a register
                    use patronus::expr::TypeCheck;
                    let probe = s.outputs.iter().map(|o| o.expr).chain(s.states.iter().map(|st| st.symbol)).find(|e| e.get_type(&ctx).is_bit_vector());
                    if let Some(e) = probe {
                        let b = ctx.slice(e, 0, 0);
                        s.bad_states.push(b);
                    }
                }
                sys = s
            }
            None => {
                println!("C15RESULT {}", json!({"verdict": "error", "text": "corpus file not readable", "system": ""}));
                return;
            }
        }
        corpus_name = util::short_path(&path.to_string_lossy());
    }
    let workdir = std::path::PathBuf::from(std::env::var("C15_WORKDIR").unwrap_or_else(|_| "/tmp".into()));
    let mcfg = McCfg { persona, individually: job == "bmc-ind", check_constraints: false, k_max: if job == "bmc-corpus" { 2 } else { 3 }, solver_seed: 7, diversify: 0, core_mode: "minimal" };
    let tag = format!("c15child_{}", std::process::id());
    let verdict = match job {
        "bmc" | "bmc-ind" | "bmc-corpus" => run_bmc_no_server(&mut ctx, &sys, &mcfg, &workdir, &tag),
        "pdr" => run_pdr_no_server(&mut ctx, &sys, &mcfg, &workdir, &tag),
        _ => direct_session(&mut ctx, persona),
    };
    let (name, text) = match &verdict {
        Verdict::Success => ("success", String::new()),
        Verdict::Fail(_) => ("fail", String::new()),
        Verdict::Unknown => ("unknown", String::new()),
        Verdict::Err(e) => ("error", e.clone()),
        Verdict::Panic(p) => ("panic", format!("{}|{}", p.loc(), p.msg)),
    };
    let system = if corpus_name.is_empty() { describe(&ctx, &sys) } else { format!("shipped design {corpus_name}") };
    println!("C15RESULT {}", json!({"verdict": name, "text": text, "system": system}));
}

fn run_bmc_no_server(ctx: &mut Context, sys: &patronus::system::TransitionSystem, cfg: &McCfg, workdir: &std::path::Path, tag: &str) -> Verdict {
    // the z3 FIFOs of the parent shard are inherited through the environment
    let solver = solver_by_name(cfg.persona);
    let _ = (workdir, tag);
    match util::catch(|| {
        let mut smt_ctx = solver.start(None).map_err(|e| format!("{e}"))?;
        shrink_pipes();
        let r = patronus::mc::bmc(ctx, &mut smt_ctx, sys, false, cfg.individually, cfg.k_max).map_err(|e| format!("{e}"));
        drop(smt_ctx);
        r
    }) {
        Err(p) => Verdict::Panic(p),
        Ok(Err(e)) => Verdict::Err(e),
        Ok(Ok(patronus::mc::ModelCheckResult::Success)) => Verdict::Success,
        Ok(Ok(patronus::mc::ModelCheckResult::Unknown)) => Verdict::Unknown,
        Ok(Ok(patronus::mc::ModelCheckResult::Fail(w))) => Verdict::Fail(w),
    }
}

/// with C15_SMALL_PIPES set: every pipe of this process (the two to the solver just started among them) is shrunk to
/// one page, so that the client cannot write far ahead of what the solver has read - a solver that dies at some
/// command is then really gone when the following commands are written
fn shrink_pipes() {
    if std::env::var("C15_SMALL_PIPES").is_err() {
        return;
    }
    if let Ok(rd) = std::fs::read_dir("/proc/self/fd") {
        for e in rd.flatten() {
            // only the pipes this process writes into (flags ...1 = O_WRONLY): the solver's answers must never block it
            let write_end = std::fs::read_to_string(format!("/proc/self/fdinfo/{}", e.file_name().to_string_lossy())).map(|t| t.lines().any(|l| l.starts_with("flags:") && l.trim_end().ends_with('1'))).unwrap_or(false);
            let is_pipe = write_end && std::fs::read_link(e.path()).map(|l| l.to_string_lossy().starts_with("pipe:")).unwrap_or(false);
            if let (true, Ok(fd)) = (is_pipe, e.file_name().to_string_lossy().parse::<i32>()) {
                unsafe { libc::fcntl(fd, libc::F_SETPIPE_SZ, 4096) };
            }
        }
    }
}

fn run_pdr_no_server(ctx: &mut Context, sys: &patronus::system::TransitionSystem, cfg: &McCfg, _workdir: &std::path::Path, _tag: &str) -> Verdict {
    let solver = solver_by_name(cfg.persona);
    let no_gen = cfg.persona == "yices-smt2";
    match util::catch(|| {
        let mut smt_ctx = solver.start(None).map_err(|e| format!("{e}"))?;
        let r = patronus::mc::pdr(ctx, &mut smt_ctx, sys, no_gen).map_err(|e| format!("{e}"));
        drop(smt_ctx);
        r
    }) {
        Err(p) => Verdict::Panic(p),
        Ok(Err(e)) => Verdict::Err(e),
        Ok(Ok(patronus::mc::ModelCheckResult::Success)) => Verdict::Success,
        Ok(Ok(patronus::mc::ModelCheckResult::Unknown)) => Verdict::Unknown,
        Ok(Ok(patronus::mc::ModelCheckResult::Fail(w))) => Verdict::Fail(w),
    }
}

/// a fixed SolverContext session: declare / assert / check / get-value / push / pop / restart
fn direct_session(ctx: &mut Context, persona: &str) -> Verdict {
    let solver = solver_by_name(persona);
    match util::catch(|| -> Result<bool, String> {
        let e = |x: patronus::smt::Error| format!("{x}");
        let mut s = solver.start(None).map_err(e)?;
        s.set_logic(patronus::smt::Logic::All).map_err(e)?;
        let a = ctx.bv_symbol("a", 4);
        let b = ctx.bv_symbol("b", 1);
        s.declare_const(ctx, a).map_err(e)?;
        s.declare_const(ctx, b).map_err(e)?;
        let three = ctx.bit_vec_val(3, 4);
        let gt = ctx.greater(a, three);
        s.assert(ctx, gt).map_err(e)?;
        let r1 = s.check_sat().map_err(e)?;
        let v = s.get_value(ctx, a).map_err(e)?;
        let _ = v;
        s.push().map_err(e)?;
        let lt = ctx.greater(three, a);
        s.assert(ctx, lt).map_err(e)?;
        let r2 = s.check_sat().map_err(e)?;
        s.pop().map_err(e)?;
        let r3 = if s.supports_check_assuming() {
            let nb = ctx.not(b);
            let r = s.check_sat_assuming(ctx, [b, nb]).map_err(e)?;
            if s.supports_get_unsat_assumptions() && r == CheckSatResponse::Unsat {
                let core = s.get_unsat_assumptions(ctx).map_err(e)?;
                if core.is_empty() {
                    return Err("empty unsat core".into());
                }
            }
            r
        } else {
            CheckSatResponse::Unsat
        };
        s.restart().map_err(e)?;
        s.declare_const(ctx, a).map_err(e)?;
        let r4 = s.check_sat().map_err(e)?;
        let vb = s.get_value(ctx, a).map_err(e)?;
        let _ = vb;
        Ok(r1 == CheckSatResponse::Sat && r2 == CheckSatResponse::Unsat && r3 == CheckSatResponse::Unsat && r4 == CheckSatResponse::Sat)
    }) {
        Err(p) => Verdict::Panic(p),
        Ok(Err(e)) => Verdict::Err(e),
        Ok(Ok(true)) => Verdict::Success,
        Ok(Ok(false)) => Verdict::Err("direct session: wrong answers without a fault".into()),
    }
}

/// a SolverContext (the public trait) around the real text-protocol context that answers `Unknown` at the n-th
/// satisfiability query - what an implementation with a resource limit does. The query is still forwarded so that
/// the solver's state stays in step.
struct UnknownInjector<C: SolverContext> {
    inner: C,
    checks: u64,
    at: Option<u64>,
    core_requests: u64,
}

impl<C: SolverContext> SolverMetaData for UnknownInjector<C> {
    fn name(&self) -> &str {
        self.inner.name()
    }
    fn supports_check_assuming(&self) -> bool {
        self.inner.supports_check_assuming()
    }
    fn supports_uf(&self) -> bool {
        self.inner.supports_uf()
    }
    fn supports_const_array(&self) -> bool {
        self.inner.supports_const_array()
    }
    fn supports_get_unsat_assumptions(&self) -> bool {
        self.inner.supports_get_unsat_assumptions()
    }
}

impl<C: SolverContext> SolverContext for UnknownInjector<C> {
    fn restart(&mut self) -> patronus::smt::Result<()> {
        self.inner.restart()
    }
    fn set_logic(&mut self, option: patronus::smt::Logic) -> patronus::smt::Result<()> {
        self.inner.set_logic(option)
    }
    fn assert(&mut self, ctx: &Context, e: patronus::expr::ExprRef) -> patronus::smt::Result<()> {
        self.inner.assert(ctx, e)
    }
    fn declare_const(&mut self, ctx: &Context, symbol: patronus::expr::ExprRef) -> patronus::smt::Result<()> {
        self.inner.declare_const(ctx, symbol)
    }
    fn define_const(&mut self, ctx: &Context, symbol: patronus::expr::ExprRef, expr: patronus::expr::ExprRef) -> patronus::smt::Result<()> {
        self.inner.define_const(ctx, symbol, expr)
    }
    fn check_sat_assuming(&mut self, ctx: &Context, props: impl IntoIterator<Item = patronus::expr::ExprRef>) -> patronus::smt::Result<CheckSatResponse> {
        let n = self.checks;
        self.checks += 1;
        let r = self.inner.check_sat_assuming(ctx, props)?;
        Ok(if Some(n) == self.at { CheckSatResponse::Unknown } else { r })
    }
    fn check_sat(&mut self) -> patronus::smt::Result<CheckSatResponse> {
        let n = self.checks;
        self.checks += 1;
        let r = self.inner.check_sat()?;
        Ok(if Some(n) == self.at { CheckSatResponse::Unknown } else { r })
    }
    fn push(&mut self) -> patronus::smt::Result<()> {
        self.inner.push()
    }
    fn pop(&mut self) -> patronus::smt::Result<()> {
        self.inner.pop()
    }
    fn get_value(&mut self, ctx: &mut Context, e: patronus::expr::ExprRef) -> patronus::smt::Result<patronus::expr::ExprRef> {
        self.inner.get_value(ctx, e)
    }
    fn get_unsat_assumptions(&mut self, ctx: &mut Context) -> patronus::smt::Result<Vec<patronus::expr::ExprRef>> {
        self.core_requests += 1;
        self.inner.get_unsat_assumptions(ctx)
    }
}

impl C15 {
    /// one in-process run of a model-checking job through the injecting context: (verdict, queries, core requests,
    /// frame-trace snapshots handed over by the PDR observer)
    fn run_with_unknown(job: &str, persona: &str, ctx: &mut Context, sys: &patronus::system::TransitionSystem, at: Option<u64>) -> (Verdict, u64, u64, Vec<super::c10::Snapshot>) {
        use std::cell::RefCell;
        use std::rc::Rc;
        let solver = solver_by_name(persona);
        let mut counts = (0u64, 0u64);
        let snaps: Rc<RefCell<Vec<super::c10::Snapshot>>> = Rc::new(RefCell::new(vec![]));
        let s2 = snaps.clone();
        patronus::verif::set_pdr_observer(Some(Box::new(move |_ctx, finite, infinite, success| {
            let mut v = s2.borrow_mut();
            if v.len() < 2000 {
                v.push(super::c10::Snapshot { finite: finite.to_vec(), infinite: infinite.to_vec(), success });
            }
        })));
        let v = match util::catch(|| {
            let inner = solver.start(None).map_err(|e| format!("{e}"))?;
            let mut smt_ctx = UnknownInjector { inner, checks: 0, at, core_requests: 0 };
            let r = match job {
                "pdr" => patronus::mc::pdr(ctx, &mut smt_ctx, sys, false),
                "pdr-nogen" => patronus::mc::pdr(ctx, &mut smt_ctx, sys, true),
                "bmc-ind" => patronus::mc::bmc(ctx, &mut smt_ctx, sys, false, true, 3),
                _ => patronus::mc::bmc(ctx, &mut smt_ctx, sys, false, false, 3),
            }
            .map_err(|e| format!("{e}"));
            counts = (smt_ctx.checks, smt_ctx.core_requests);
            r
        }) {
            Err(p) => Verdict::Panic(p),
            Ok(Err(e)) => Verdict::Err(e),
            Ok(Ok(patronus::mc::ModelCheckResult::Success)) => Verdict::Success,
            Ok(Ok(patronus::mc::ModelCheckResult::Unknown)) => Verdict::Unknown,
            Ok(Ok(patronus::mc::ModelCheckResult::Fail(w))) => Verdict::Fail(w),
        };
        patronus::verif::set_pdr_observer(None);
        let snaps = snaps.borrow().clone();
        (v, counts.0, counts.1, snaps)
    }

    /// `Unknown` as the answer to every single satisfiability query of a job, one at a time
    fn unknown_case(&self, sh: &mut Shard, rng: &mut Rng, n: u64) {
        ensure_z3_server(&sh.workdir.clone());
        unset_env("REFSOLVER_LOG");
        unset_env("REFSOLVER_FAULT");
        let job = ["pdr", "bmc", "pdr", "bmc-ind", "pdr-nogen", "pdr"][(n % 6) as usize];
        let persona = ["z3", "bitwuzla", "cvc5", "yices-smt2"][((n / 6 + n) % 4) as usize];
        let job = if persona == "yices-smt2" && job == "pdr" { "pdr-nogen" } else { job };
        let is_pdr = job.starts_with("pdr");
        let mut chosen = None;
        for _ in 0..60 {
            let mut ctx = Context::default();
            let mut cfg = mc_sys_cfg(rng);
            cfg.arrays = false;
            cfg.init_reads_inputs = false;
            let sys = gen_system(rng, &mut ctx, &cfg, "").sys;
            let (v, checks, cores, _) = Self::run_with_unknown(job, persona, &mut ctx, &sys, None);
            let definite = matches!(v, Verdict::Success | Verdict::Fail(_));
            // failing systems are the telling ones for BMC (an undecided query must not count as "no counterexample")
            // (for PDR two thirds of the jobs are unsafe systems whose bad state lies a few steps away: the cubes learnt
            // on the way are the ones an unsound treatment of an undecided query would wrongly keep)
            let deep_fail = matches!(&v, Verdict::Fail(w) if w.inputs.len() >= 3);
            let wanted = if is_pdr { deep_fail || rng.chance(1, 3) } else { matches!(v, Verdict::Fail(_)) || rng.chance(1, 3) };
            if definite && wanted && checks >= 2 && checks <= sh.tier.pick(120, 400) && (job != "pdr" || cores >= 1) {
                let base_len = if let Verdict::Fail(w) = &v { w.inputs.len() } else { 0 };
                chosen = Some((ctx, sys, v.name(), checks, base_len));
                break;
            }
        }
        let Some((mut ctx, sys, base, checks, base_len)) = chosen else {
            sh.count("unknown_jobs_without_suitable_conversation", 1);
            return;
        };
        sh.count("unknown_jobs", 1);
        sh.hist("unknown_jobs_by_kind", &format!("{job}|{persona}"));
        // explicit state space for the frame invariants of PDR runs that carry on after an Unknown
        let mut explicit = None;
        if is_pdr {
            if let Ok(mut reach) = reach_for(&ctx, &sys, 400, true) {
                if reach.fixpoint {
                    if let Ok(ex) = super::c10::explicit(&ctx, &sys, &mut reach) {
                        explicit = Some((reach, ex));
                    }
                }
            }
        }
        for at in 0..checks {
            let (v, _, _, snaps) = Self::run_with_unknown(job, persona, &mut ctx, &sys, Some(at));
            sh.count("fault_runs", 1);
            sh.count("unknown_answer_runs", 1);
            sh.hist("outcomes", &format!("unknown-from-context -> {}", v.name()));
            sh.distinct(util::mix(&[util::hash_str(&describe(&ctx, &sys)), util::hash_str(job), util::hash_str(persona), at]));
            let ctxt = format!("{job} under profile {persona} ({checks} satisfiability queries, fault-free verdict {base}), the solver context answers Unknown to query number {at}");
            match &v {
                Verdict::Success | Verdict::Fail(_) if v.name() != base => {
                    sh.violation(format!("C15|wrong-verdict-after-unknown|{job}"), format!("{ctxt}: the call reports `{}` - the undecided query was taken for an answer\n{}", v.name(), describe(&ctx, &sys)), json!({}));
                    return;
                }
                Verdict::Fail(w) if !is_pdr && w.inputs.len() != base_len => {
                    // BMC checks step by step: the step of the first failure is a function of the system
                    sh.violation(format!("C15|wrong-verdict-after-unknown|{job}|later-failure"), format!("{ctxt}: the call reports a failure after {} step(s) instead of {} - the undecided query was taken for `no counterexample in this step`\n{}", w.inputs.len(), base_len, describe(&ctx, &sys)), json!({}));
                    return;
                }
                Verdict::Success | Verdict::Fail(_) => sh.count("unknown_answer_runs_with_the_fault_free_verdict", 1),
                Verdict::Panic(p) => {
                    sh.violation(format!("C15|panic|unknown-from-context|{}", p.loc()), format!("{ctxt}: panic at {}: {}\n{}", p.loc(), util::trunc(&p.msg, 300), describe(&ctx, &sys)), json!({}));
                    return;
                }
                _ => {}
            }
            // whatever PDR did after the undecided query must still be sound
            if let Some((reach, ex)) = explicit.as_mut() {
                if let Err((kind, text)) = super::c10::C10.check_snapshots(sh, &ctx, &sys, reach, ex, &snaps) {
                    sh.violation(format!("C15|unsound-after-unknown|{kind}"), format!("{ctxt}: {text}\n{}", describe(&ctx, &sys)), json!({}));
                    return;
                }
            }
        }
    }
}

struct ChildOutcome {
    verdict: String,
    text: String,
    system: String,
    wall: Duration,
    /// None = returned; Some(reason) = did not return within the budget
    hang: Option<String>,
}

fn proc_stat_utime(pid: u32) -> Option<u64> {
    let s = std::fs::read_to_string(format!("/proc/{pid}/stat")).ok()?;
    let after = s.rsplit_once(") ")?.1;
    let f: Vec<&str> = after.split(' ').collect();
    // fields after the command name: state(0) ... utime is the 12th, stime the 13th
    Some(f.get(11)?.parse::<u64>().ok()? + f.get(12)?.parse::<u64>().ok()?)
}

fn children_of(pid: u32) -> Vec<u32> {
    std::fs::read_to_string(format!("/proc/{pid}/task/{pid}/children")).unwrap_or_default().split_whitespace().filter_map(|x| x.parse().ok()).collect()
}

fn run_child(sh: &Shard, spec: &str, fault: Option<(&str, u64)>, counter: &std::path::Path, budget: Duration) -> ChildOutcome {
    let exe = std::env::current_exe().unwrap();
    let _ = std::fs::write(counter, "0");
    let _ = std::fs::remove_file(format!("{}.seq", counter.display()));
    let mut cmd = std::process::Command::new(exe);
    cmd.arg("C15").arg("--child").arg(spec).env("C15_WORKDIR", &sh.workdir).env("REFSOLVER_COUNTER", counter).env_remove("REFSOLVER_LOG").stdin(std::process::Stdio::null()).stdout(std::process::Stdio::piped()).stderr(std::process::Stdio::null());
    cmd.env_remove("REFSOLVER_CMD_FAULT");
    cmd.env_remove("REFSOLVER_PIPE_SZ");
    cmd.env_remove("C15_SMALL_PIPES");
    match fault {
        Some((k, n)) if k.starts_with("cmd-") => {
            cmd.env_remove("REFSOLVER_FAULT");
            cmd.env("REFSOLVER_PIPE_SZ", "4096");
            cmd.env("C15_SMALL_PIPES", "1");
            cmd.env("REFSOLVER_CMD_FAULT", format!("{k}@{n}"));
        }
        Some((k, n)) => {
            cmd.env("REFSOLVER_FAULT", format!("{k}@{n}"));
        }
        None => {
            cmd.env_remove("REFSOLVER_FAULT");
        }
    }
    let t0 = Instant::now();
    let mut child = cmd.spawn().expect("spawn child");
    let pid = child.id();
    let cpu0 = proc_stat_utime(pid).unwrap_or(0);
    let mut hang = None;
    loop {
        match child.try_wait() {
            Ok(Some(_)) => break,
            Ok(None) => {
                if t0.elapsed() > budget {
                    // observe why it does not return
                    let cpu = proc_stat_utime(pid).unwrap_or(cpu0);
                    let ticks = unsafe { libc::sysconf(libc::_SC_CLK_TCK) } as u64;
                    let cpu_s = (cpu - cpu0) as f64 / ticks.max(1) as f64;
                    let kids = children_of(pid);
                    // both sides waiting for the other to speak: the solver sits in read(0, ..) and so does the client
                    let in_read = |p: u32, fd0: bool| std::fs::read_to_string(format!("/proc/{p}/syscall")).map(|t| {
                        let f: Vec<&str> = t.split_whitespace().collect();
                        f.first() == Some(&"0") && (!fd0 || f.get(1) == Some(&"0x0"))
                    }).unwrap_or(false);
                    let deadlock = !kids.is_empty() && kids.iter().all(|k| in_read(*k, true)) && in_read(pid, false);
                    let reason = if deadlock {
                        Some(format!("still running after {:.0} s: the client waits for more output while the solver waits for the next command (cpu {:.1} s)", t0.elapsed().as_secs_f64(), cpu_s))
                    } else if kids.is_empty() {
                        Some(format!("still running after {:.0} s although its solver process is gone (cpu {:.1} s)", t0.elapsed().as_secs_f64(), cpu_s))
                    } else if cpu_s > budget.as_secs_f64() * 0.5 {
                        Some(format!("still running after {:.0} s and burning cpu ({:.1} s)", t0.elapsed().as_secs_f64(), cpu_s))
                    } else {
                        Some(format!("INCONCLUSIVE: slow but its solver is alive (cpu {:.1} s)", cpu_s))
                    };
                    for k in kids {
                        unsafe { libc::kill(k as i32, libc::SIGKILL) };
                    }
                    let _ = child.kill();
                    let _ = child.wait();
                    hang = reason;
                    break;
                }
                std::thread::sleep(Duration::from_millis(3));
            }
            Err(_) => break,
        }
    }
    let mut out = String::new();
    if let Some(mut so) = child.stdout.take() {
        use std::io::Read;
        let _ = so.read_to_string(&mut out);
    }
    let line = out.lines().find_map(|l| l.strip_prefix("C15RESULT ")).unwrap_or("{}");
    let v: serde_json::Value = serde_json::from_str(line).unwrap_or(json!({}));
    ChildOutcome {
        verdict: v["verdict"].as_str().unwrap_or(if hang.is_some() { "hang" } else { "crash" }).to_string(),
        text: v["text"].as_str().unwrap_or("").to_string(),
        system: v["system"].as_str().unwrap_or("").to_string(),
        wall: t0.elapsed(),
        hang,
    }
}

fn counter_path(sh: &Shard) -> std::path::PathBuf {
    sh.workdir.join("c15.counter")
}

impl Check for C15 {
    fn id(&self) -> &'static str {
        "C15"
    }
    fn level(&self) -> &'static str {
        "fault_enumeration"
    }
    fn work(&self, tier: Tier) -> Vec<WorkItem> {
        vec![WorkItem { mode: "job", count: std::env::var("VERIF_N").ok().and_then(|s| s.parse().ok()).unwrap_or(tier.pick(14, 126)) }, WorkItem { mode: "unknown", count: tier.pick(48, 360) }]
    }
    fn evaluations_counter(&self) -> &'static str {
        "fault_runs"
    }
    fn rule(&self) -> String {
        format!("jobs = BMC (k=3; all bad states at once, or one at a time), PDR (jobs on profiles with unsat cores are chosen such that the run really asks for a core) and a direct SolverContext session (declare/assert/check-sat/get-value/push/pop/check-sat-assuming/get-unsat-assumptions/restart) on generated systems, each under one of the four solver profiles; a fault-free run counts the N response-bearing points of the conversation (check-sat, check-sat-assuming, get-value, get-unsat-assumptions; counted across restart() through a shared counter file); then for EVERY position n < N (a sample of positions for the job on a shipped design) and EVERY fault kind of {:?} the job is re-run in a child process with the fault armed in the reference solver. Oracle: the call must return an error (or Unknown) - never Success/Fail, never a panic; for error replies the returned text must contain the injected message as one contiguous piece; the child must return within 1000 x fault-free time (clamped to 12..60 s), otherwise /proc is inspected: solver process gone, cpu burning, or client and solver both blocked in read (each waiting for the other) = hang (violation), solver alive and busy = inconclusive. Commands that bear no response (declare/define/assert/push/pop/set-*) get three more fault kinds {:?} at the first, the last-before-a-response and 3 (thorough 10) random positions, plus one position after the last response: where a response follows in the same solver session the call must not report Success/Fail and must carry the message the solver printed; elsewhere only no-hang/no-panic is demanded. Mode unknown: BMC and PDR jobs run in-process through a SolverContext (an implementation of the public trait around the real text-protocol context) that answers Unknown to exactly one satisfiability query, for EVERY query of the conversation in turn - the text protocol itself turns the word `unknown` into an error before the engines see it, so this is the only way their Unknown handling is reached. An engine may carry on after an undecided query only soundly: no panic, a definite verdict must be the fault-free one (BMC jobs are mostly failing systems, where taking `unknown` for `unsat` loses the counterexample), and the frame traces of PDR (hook H3) must still satisfy the invariants of C10 on the explicit state space. One job in seven is BMC (k=2) on a shipped design of 20-250 kB whose conversation has a run of at least 24 kB of answerless commands between two responses; two of the fault positions lie early in the longest such run, and for these faults the pipe into the solver is shrunk to 4 kB so that the client cannot have written the rest of the run before the solver dies. distinct_nontrivial = distinct (job, position, kind) triples executed.", FAULT_KINDS, CMD_FAULT_KINDS)
    }
    fn assumptions(&self) -> Vec<String> {
        vec!["every injected fault hits a response the job really waits for (positions are enumerated from a fault-free run of the same deterministic job)".into()]
    }
    fn prepare(&self, _tier: Tier) -> Result<(), String> {
        install_solvers()
    }
    fn shard_begin(&self, _sh: &mut Shard) {
        use_refsolver_path();
    }
    fn shard_end(&self, _sh: &mut Shard) {
        stop_z3_server();
    }
    fn nshards(&self, _tier: Tier) -> u64 {
        8
    }
    fn shard_timeout_s(&self, tier: Tier) -> u64 {
        tier.pick(2400, 6 * 3600)
    }
    fn run_case(&self, sh: &mut Shard, case: &CaseId) {
        let mut rng = Rng::new(sh.case_seed());
        if case.mode == "unknown" {
            self.unknown_case(sh, &mut rng, case.n);
            return;
        }
        ensure_z3_server(&sh.workdir.clone());
        let job = ["bmc", "pdr", "direct", "pdr", "bmc-ind", "pdr", "bmc-corpus"][(case.n % 7) as usize];
        let persona = PERSONAS[((case.n / 3 + case.n) % 4) as usize];
        let seq_file = std::path::PathBuf::from(format!("{}.seq", counter_path(sh).display()));
        let kinds_file = std::path::PathBuf::from(format!("{}.kinds", counter_path(sh).display()));
        let counter = counter_path(sh);
        // find a job with a manageable conversation
        let mut chosen = None;
        for _ in 0..40 {
            let spec = format!("{job}:{}:{persona}", rng.next() % 1_000_000);
            let _ = std::fs::remove_file(&kinds_file);
            let base = run_child(sh, &spec, None, &counter, Duration::from_secs(60));
            let n: u64 = std::fs::read_to_string(&counter).ok().and_then(|s| s.trim().parse().ok()).unwrap_or(0);
            let kinds: Vec<String> = std::fs::read_to_string(&kinds_file).unwrap_or_default().lines().map(|l| l.to_string()).collect();
            let seq = std::fs::read_to_string(&seq_file).unwrap_or_default();
            // a PDR job is only interesting for this check if it generalises through unsat cores where the profile has them,
            // an individual-mode BMC job if several bad states are checked after one another
            let wants_core = job == "pdr" && persona != "yices-smt2";
            let has_core = kinds.iter().any(|k| k == "get-unsat-assumptions");
            // the job on a shipped design is there for its long runs of commands that bear no response
            let long_run_ok = job != "bmc-corpus" || {
                let (mut best, mut cur) = (0u64, 0u64);
                for t in seq.split_whitespace() {
                    match t.strip_prefix('C') {
                        Some(len) => cur += len.parse::<u64>().unwrap_or(0) + 1,
                        None => {
                            best = best.max(cur);
                            cur = 0;
                        }
                    }
                }
                best >= 24 * 1024
            };
            if base.hang.is_none() && (base.verdict == "success" || base.verdict == "fail") && n >= 2 && n <= if job == "bmc-corpus" { 2000 } else { sh.tier.pick(40, 80) } && kinds.len() as u64 == n && (!wants_core || has_core) && long_run_ok {
                chosen = Some((spec, base, n, kinds, seq));
                break;
            }
        }
        let Some((spec, base, npoints, kinds, seq)) = chosen else {
            sh.count("jobs_without_suitable_conversation", 1);
            return;
        };
        sh.count("jobs", 1);
        sh.hist("jobs_by_kind", &format!("{job}|{persona}"));
        sh.count("response_points", npoints);
        let budget = Duration::from_secs_f64((base.wall.as_secs_f64() * 1000.0).clamp(12.0, 60.0));
        // conversations on shipped designs have hundreds of response points (one get-value per register): sampled there
        let mut points: Vec<u64> = (0..npoints).collect();
        if job == "bmc-corpus" && npoints > 8 {
            rng.shuffle(&mut points);
            points.truncate(sh.tier.pick(1, 4));
            points.push(0);
            points.push(npoints - 1);
            points.sort();
            points.dedup();
        }
        for n in points {
            for kind in FAULT_KINDS {
                // (a run on a shipped design takes seconds: four representative kinds in the quick tier)
                if job == "bmc-corpus" && sh.tier == Tier::Quick && !["error-len-40", "error-bar", "unknown", "truncated-then-exit", "exit-silently"].contains(kind) {
                    continue;
                }
                let o = run_child(sh, &spec, Some((kind, n)), &counter, budget);
                sh.count("fault_runs", 1);
                sh.hist("fault_runs_by_job_and_point", &format!("{job} @ {}", kinds[n as usize]));
                sh.distinct(util::mix(&[util::hash_str(&spec), n, util::hash_str(kind)]));
                sh.hist("outcomes", &format!("{kind} -> {}", o.verdict));
                let ctxt = format!("job `{spec}` ({} response points, fault-free verdict {}), fault `{kind}` at response point {n}", npoints, base.verdict);
                let sig_job = job;
                if let Some(reason) = &o.hang {
                    if reason.starts_with("INCONCLUSIVE") {
                        sh.inconclusive(format!("{ctxt}: {reason}"));
                    } else {
                        sh.violation(format!("C15|hang|{kind}|{sig_job}"), format!("{ctxt}: the call does not return: {reason}\n{}", o.system), json!({"spec": spec, "fault": kind, "at": n}));
                        continue;
                    }
                    continue;
                }
                match o.verdict.as_str() {
                    "success" | "fail" => {
                        sh.violation(format!("C15|verdict-despite-fault|{kind}|{sig_job}"), format!("{ctxt}: the call still reports `{}`\n{}", o.verdict, o.system), json!({"spec": spec, "fault": kind, "at": n}));
                    }
                    "panic" => {
                        let loc = o.text.split('|').next().unwrap_or("").to_string();
                        sh.violation(format!("C15|panic|{kind}|{loc}"), format!("{ctxt}: panic {}\n{}", o.text, o.system), json!({"spec": spec, "fault": kind, "at": n}));
                    }
                    "crash" => {
                        sh.violation(format!("C15|crash|{kind}|{sig_job}"), format!("{ctxt}: the process died without a result\n{}", o.system), json!({"spec": spec, "fault": kind, "at": n}));
                    }
                    "unknown" => {}
                    "error" => {
                        if *kind == "error-bar" && !o.text.contains("unexpected character '|' (in a term)") {
                            sh.violation(format!("C15|message-mangled|{kind}"), format!("{ctxt}: the solver's message does not arrive intact: {:?}", o.text), json!({"spec": spec, "fault": kind, "at": n}));
                        }
                        if let Some(len) = kind.strip_prefix("error-len-") {
                            let len: usize = len.parse().unwrap();
                            let msg: String = FAULT_MESSAGE.chars().take(len).collect();
                            // (only the solver's own message is pinned by the property, not the wording around it)
                            if !o.text.contains(&msg) {
                                sh.violation(format!("C15|message-mangled|{kind}"), format!("{ctxt}: injected message `{msg}` does not arrive intact: {:?}", o.text), json!({"spec": spec, "fault": kind, "at": n}));
                            }
                        }
                    }
                    other => sh.inconclusive(format!("{ctxt}: unexpected child outcome {other}")),
                }
            }
        }
        // faults at commands that bear no response (declarations, definitions, assertions, push/pop): the solver
        // reports an error and carries on (z3 does), reports an error and dies, or just dies
        let toks: Vec<&str> = seq.split_whitespace().collect();
        let ncmds = toks.iter().filter(|t| t.starts_with('C')).count() as u64;
        let before_last_response = toks.iter().rposition(|t| *t == "R").map(|p| toks[..p].iter().filter(|t| t.starts_with('C')).count() as u64).unwrap_or(0);
        // a fault at a command is only bound to be noticed if the client reads another response in the SAME solver
        // session (after restart() the old process and whatever it printed are gone)
        let mut noticed: Vec<bool> = vec![];
        {
            let mut pending: Vec<usize> = vec![];
            for t in toks.iter() {
                if t.starts_with('C') {
                    pending.push(noticed.len());
                    noticed.push(false);
                } else if *t == "R" {
                    for i in pending.drain(..) {
                        noticed[i] = true;
                    }
                } else {
                    pending.clear();
                }
            }
        }
        sh.count("answerless_commands_in_fault_free_runs", ncmds);
        // the longest run (in bytes) of such commands between two responses: (first command index, commands, bytes)
        let mut longest = (0u64, 0u64, 0u64);
        {
            let (mut idx, mut start, mut n, mut bytes) = (0u64, 0u64, 0u64, 0u64);
            for t in toks.iter() {
                if let Some(len) = t.strip_prefix('C') {
                    if n == 0 {
                        start = idx;
                    }
                    n += 1;
                    bytes += len.parse::<u64>().unwrap_or(0) + 1;
                    idx += 1;
                } else {
                    if bytes > longest.2 && start < before_last_response {
                        longest = (start, n, bytes);
                    }
                    n = 0;
                    bytes = 0;
                }
            }
        }
        sh.hist("longest_run_of_answerless_commands_kB", &format!("{job}: {:>3} kB", longest.2 / 1024));
        let mut positions: Vec<u64> = vec![];
        if before_last_response > 0 {
            positions.push(0);
            positions.push(before_last_response - 1);
            for _ in 0..if job == "bmc-corpus" { sh.tier.pick(1, 3) } else { sh.tier.pick(3, 10) } {
                positions.push(rng.below(before_last_response));
            }
            // early in the longest run: everything the client writes afterwards goes to a solver that is gone
            if longest.1 > 4 {
                positions.push(longest.0);
                positions.push(longest.0 + longest.1 / 8);
            }
        }
        if ncmds > before_last_response {
            positions.push(ncmds - 1);
        }
        positions.sort();
        positions.dedup();
        for m in positions {
            for kind in CMD_FAULT_KINDS {
                let o = run_child(sh, &spec, Some((kind, m)), &counter, budget);
                sh.count("fault_runs", 1);
                sh.count("command_fault_runs", 1);
                let decisive = m < before_last_response && noticed.get(m as usize).copied().unwrap_or(false);
                sh.hist("fault_runs_by_job_and_point", &format!("{job} @ command{}", if decisive { "" } else { " after the last response" }));
                sh.distinct(util::mix(&[util::hash_str(&spec), 1_000_000 + m, util::hash_str(kind)]));
                sh.hist("outcomes", &format!("{kind} -> {}", o.verdict));
                let ctxt = format!("job `{spec}` ({ncmds} commands without response, {before_last_response} of them before the last response; fault-free verdict {}), fault `{kind}` at such command number {m}", base.verdict);
                if let Some(reason) = &o.hang {
                    if reason.starts_with("INCONCLUSIVE") {
                        sh.inconclusive(format!("{ctxt}: {reason}"));
                    } else {
                        sh.violation(format!("C15|hang|{kind}|{job}"), format!("{ctxt}: the call does not return: {reason}\n{}", o.system), json!({"spec": spec, "fault": kind, "at_command": m}));
                    }
                    continue;
                }
                match o.verdict.as_str() {
                    "success" | "fail" if decisive => {
                        sh.violation(format!("C15|verdict-despite-fault|{kind}|{job}"), format!("{ctxt}: the call still reports `{}`\n{}", o.verdict, o.system), json!({"spec": spec, "fault": kind, "at_command": m}));
                    }
                    "panic" => {
                        let loc = o.text.split('|').next().unwrap_or("").to_string();
                        sh.violation(format!("C15|panic|{kind}|{loc}"), format!("{ctxt}: panic {}\n{}", o.text, o.system), json!({"spec": spec, "fault": kind, "at_command": m}));
                    }
                    "crash" => {
                        sh.violation(format!("C15|crash|{kind}|{job}"), format!("{ctxt}: the process died without a result\n{}", o.system), json!({"spec": spec, "fault": kind, "at_command": m}));
                    }
                    "error" if decisive && *kind != "cmd-exit" => {
                        if !o.text.contains(CMD_FAULT_MESSAGE) {
                            sh.violation(format!("C15|message-mangled|{kind}"), format!("{ctxt}: the solver's message `{CMD_FAULT_MESSAGE}` does not arrive intact: {:?}", o.text), json!({"spec": spec, "fault": kind, "at_command": m}));
                        }
                    }
                    _ => {}
                }
            }
        }
        if sh.want_sample() {
            sh.sample(json!({"job": spec, "response_points": npoints, "fault_free_verdict": base.verdict, "fault_kinds": FAULT_KINDS.len()}));
        }
    }
    fn finalize(&self, m: &mut Merged, tier: Tier) {
        m.floor("fault runs", m.c("fault_runs"), tier.pick(300, 8_000));
        m.floor("jobs", m.c("jobs"), tier.pick(6, 60));
        for (what, floor) in [("pdr @ get-unsat-assumptions", tier.pick(28, 280)), ("pdr @ check", tier.pick(100, 1000)), ("bmc-ind @ check", tier.pick(28, 280)), ("bmc @ get-value", tier.pick(28, 280)), ("direct @ get-unsat-assumptions", 14)] {
            m.floor(&format!("fault runs at response points of kind `{what}`"), m.h("fault_runs_by_job_and_point", what), floor);
        }
        m.floor("runs with Unknown returned by the solver context at one query", m.c("unknown_answer_runs"), tier.pick(150, 1500));
        m.floor("fault runs at commands that bear no response", m.c("command_fault_runs"), tier.pick(60, 1500));
        m.extra.insert("exhaustive_over_positions_and_kinds_per_job".into(), json!(true));
    }
}

//! C15 Solver faults surface as errors, never as verdicts or hangs

use super::c02::mc_sys_cfg;
use super::mcrun::*;
use crate::runner::*;
use crate::util::{self, Rng};
use crate::wl::sys::{describe, gen_system};
use patronus::expr::Context;
use patronus::smt::{CheckSatResponse, Solver, SolverContext, SolverMetaData};
use serde_json::json;
use std::time::{Duration, Instant};

pub struct C15;

pub const FAULT_KINDS: &[&str] = &[
    "error-len-0", "error-len-1", "error-len-5", "error-len-6", "error-len-7", "error-len-8", "error-len-40", "unknown", "empty-line", "truncated-then-exit", "exit-silently", "exit-nonzero-with-stderr", "garbage",
    "extra-paren",
];

const FAULT_MESSAGE: &str = "injected-fault-message-with-(parens)-and-some-more-text-to-be-long-enough";

/// executed in a child process: runs one job with the fault (if any) armed and prints one JSON line
pub fn child_main(spec: &str) {
    util::install_panic_hook();
    use_refsolver_path();
    let parts: Vec<&str> = spec.split(':').collect();
    let (job, seed, persona) = (parts[0], parts[1].parse::<u64>().unwrap_or(0), parts[2]);
    let mut rng = Rng::new(seed);
    let mut ctx = Context::default();
    let cfg = {
        let mut c = mc_sys_cfg(&mut rng);
        c.arrays = false;
        c.init_reads_inputs = false;
        c
    };
    let gs = gen_system(&mut rng, &mut ctx, &cfg, "");
    let sys = gs.sys;
    let workdir = std::path::PathBuf::from(std::env::var("C15_WORKDIR").unwrap_or_else(|_| "/tmp".into()));
    let mcfg = McCfg { persona, individually: job == "bmc-ind", check_constraints: false, k_max: 3, solver_seed: 7, diversify: 0, core_mode: "minimal" };
    let tag = format!("c15child_{}", std::process::id());
    let verdict = match job {
        "bmc" | "bmc-ind" => run_bmc_no_server(&mut ctx, &sys, &mcfg, &workdir, &tag),
        "pdr" => run_pdr_no_server(&mut ctx, &sys, &mcfg, &workdir, &tag),
        _ => direct_session(&mut ctx, persona),
    };
    let (name, text) = match &verdict {
        Verdict::Success => ("success", String::new()),
        Verdict::Fail(_) => ("fail", String::new()),
        Verdict::Unknown => ("unknown", String::new()),
        Verdict::Err(e) => ("error", e.clone()),
        Verdict::Panic(p) => ("panic", format!("{}|{}", p.loc(), p.msg)),
    };
    println!("C15RESULT {}", json!({"verdict": name, "text": text, "system": describe(&ctx, &sys)}));
}

fn run_bmc_no_server(ctx: &mut Context, sys: &patronus::system::TransitionSystem, cfg: &McCfg, workdir: &std::path::Path, tag: &str) -> Verdict {
    // the z3 FIFOs of the parent shard are inherited through the environment
    let solver = solver_by_name(cfg.persona);
    let _ = (workdir, tag);
    match util::catch(|| {
        let mut smt_ctx = solver.start(None).map_err(|e| format!("{e}"))?;
        let r = patronus::mc::bmc(ctx, &mut smt_ctx, sys, false, cfg.individually, cfg.k_max).map_err(|e| format!("{e}"));
        drop(smt_ctx);
        r
    }) {
        Err(p) => Verdict::Panic(p),
        Ok(Err(e)) => Verdict::Err(e),
        Ok(Ok(patronus::mc::ModelCheckResult::Success)) => Verdict::Success,
        Ok(Ok(patronus::mc::ModelCheckResult::Unknown)) => Verdict::Unknown,
        Ok(Ok(patronus::mc::ModelCheckResult::Fail(w))) => Verdict::Fail(w),
    }
}

fn run_pdr_no_server(ctx: &mut Context, sys: &patronus::system::TransitionSystem, cfg: &McCfg, _workdir: &std::path::Path, _tag: &str) -> Verdict {
    let solver = solver_by_name(cfg.persona);
    let no_gen = cfg.persona == "yices-smt2";
    match util::catch(|| {
        let mut smt_ctx = solver.start(None).map_err(|e| format!("{e}"))?;
        let r = patronus::mc::pdr(ctx, &mut smt_ctx, sys, no_gen).map_err(|e| format!("{e}"));
        drop(smt_ctx);
        r
    }) {
        Err(p) => Verdict::Panic(p),
        Ok(Err(e)) => Verdict::Err(e),
        Ok(Ok(patronus::mc::ModelCheckResult::Success)) => Verdict::Success,
        Ok(Ok(patronus::mc::ModelCheckResult::Unknown)) => Verdict::Unknown,
        Ok(Ok(patronus::mc::ModelCheckResult::Fail(w))) => Verdict::Fail(w),
    }
}

/// a fixed SolverContext session: declare / assert / check / get-value / push / pop / restart
fn direct_session(ctx: &mut Context, persona: &str) -> Verdict {
    let solver = solver_by_name(persona);
    match util::catch(|| -> Result<bool, String> {
        let e = |x: patronus::smt::Error| format!("{x}");
        let mut s = solver.start(None).map_err(e)?;
        s.set_logic(patronus::smt::Logic::All).map_err(e)?;
        let a = ctx.bv_symbol("a", 4);
        let b = ctx.bv_symbol("b", 1);
        s.declare_const(ctx, a).map_err(e)?;
        s.declare_const(ctx, b).map_err(e)?;
        let three = ctx.bit_vec_val(3, 4);
        let gt = ctx.greater(a, three);
        s.assert(ctx, gt).map_err(e)?;
        let r1 = s.check_sat().map_err(e)?;
        let v = s.get_value(ctx, a).map_err(e)?;
        let _ = v;
        s.push().map_err(e)?;
        let lt = ctx.greater(three, a);
        s.assert(ctx, lt).map_err(e)?;
        let r2 = s.check_sat().map_err(e)?;
        s.pop().map_err(e)?;
        let r3 = if s.supports_check_assuming() {
            let nb = ctx.not(b);
            let r = s.check_sat_assuming(ctx, [b, nb]).map_err(e)?;
            if s.supports_get_unsat_assumptions() && r == CheckSatResponse::Unsat {
                let core = s.get_unsat_assumptions(ctx).map_err(e)?;
                if core.is_empty() {
                    return Err("empty unsat core".into());
                }
            }
            r
        } else {
            CheckSatResponse::Unsat
        };
        s.restart().map_err(e)?;
        s.declare_const(ctx, a).map_err(e)?;
        let r4 = s.check_sat().map_err(e)?;
        let vb = s.get_value(ctx, a).map_err(e)?;
        let _ = vb;
        Ok(r1 == CheckSatResponse::Sat && r2 == CheckSatResponse::Unsat && r3 == CheckSatResponse::Unsat && r4 == CheckSatResponse::Sat)
    }) {
        Err(p) => Verdict::Panic(p),
        Ok(Err(e)) => Verdict::Err(e),
        Ok(Ok(true)) => Verdict::Success,
        Ok(Ok(false)) => Verdict::Err("direct session: wrong answers without a fault".into()),
    }
}

struct ChildOutcome {
    verdict: String,
    text: String,
    system: String,
    wall: Duration,
    /// None = returned; Some(reason) = did not return within the budget
    hang: Option<String>,
}

fn proc_stat_utime(pid: u32) -> Option<u64> {
    let s = std::fs::read_to_string(format!("/proc/{pid}/stat")).ok()?;
    let after = s.rsplit_once(") ")?.1;
    let f: Vec<&str> = after.split(' ').collect();
    // fields after the command name: state(0) ... utime is the 12th, stime the 13th
    Some(f.get(11)?.parse::<u64>().ok()? + f.get(12)?.parse::<u64>().ok()?)
}

fn children_of(pid: u32) -> Vec<u32> {
    std::fs::read_to_string(format!("/proc/{pid}/task/{pid}/children")).unwrap_or_default().split_whitespace().filter_map(|x| x.parse().ok()).collect()
}

fn run_child(sh: &Shard, spec: &str, fault: Option<(&str, u64)>, counter: &std::path::Path, budget: Duration) -> ChildOutcome {
    let exe = std::env::current_exe().unwrap();
    let _ = std::fs::write(counter, "0");
    let mut cmd = std::process::Command::new(exe);
    cmd.arg("C15").arg("--child").arg(spec).env("C15_WORKDIR", &sh.workdir).env("REFSOLVER_COUNTER", counter).env_remove("REFSOLVER_LOG").stdin(std::process::Stdio::null()).stdout(std::process::Stdio::piped()).stderr(std::process::Stdio::null());
    match fault {
        Some((k, n)) => {
            cmd.env("REFSOLVER_FAULT", format!("{k}@{n}"));
        }
        None => {
            cmd.env_remove("REFSOLVER_FAULT");
        }
    }
    let t0 = Instant::now();
    let mut child = cmd.spawn().expect("spawn child");
    let pid = child.id();
    let cpu0 = proc_stat_utime(pid).unwrap_or(0);
    let mut hang = None;
    loop {
        match child.try_wait() {
            Ok(Some(_)) => break,
            Ok(None) => {
                if t0.elapsed() > budget {
                    // observe why it does not return
                    let cpu = proc_stat_utime(pid).unwrap_or(cpu0);
                    let ticks = unsafe { libc::sysconf(libc::_SC_CLK_TCK) } as u64;
                    let cpu_s = (cpu - cpu0) as f64 / ticks.max(1) as f64;
                    let kids = children_of(pid);
                    let reason = if kids.is_empty() {
                        Some(format!("still running after {:.0} s although its solver process is gone (cpu {:.1} s)", t0.elapsed().as_secs_f64(), cpu_s))
                    } else if cpu_s > budget.as_secs_f64() * 0.5 {
                        Some(format!("still running after {:.0} s and burning cpu ({:.1} s)", t0.elapsed().as_secs_f64(), cpu_s))
                    } else {
                        Some(format!("INCONCLUSIVE: slow but its solver is alive (cpu {:.1} s)", cpu_s))
                    };
                    for k in kids {
                        unsafe { libc::kill(k as i32, libc::SIGKILL) };
                    }
                    let _ = child.kill();
                    let _ = child.wait();
                    hang = reason;
                    break;
                }
                std::thread::sleep(Duration::from_millis(3));
            }
            Err(_) => break,
        }
    }
    let mut out = String::new();
    if let Some(mut so) = child.stdout.take() {
        use std::io::Read;
        let _ = so.read_to_string(&mut out);
    }
    let line = out.lines().find_map(|l| l.strip_prefix("C15RESULT ")).unwrap_or("{}");
    let v: serde_json::Value = serde_json::from_str(line).unwrap_or(json!({}));
    ChildOutcome {
        verdict: v["verdict"].as_str().unwrap_or(if hang.is_some() { "hang" } else { "crash" }).to_string(),
        text: v["text"].as_str().unwrap_or("").to_string(),
        system: v["system"].as_str().unwrap_or("").to_string(),
        wall: t0.elapsed(),
        hang,
    }
}

fn counter_path(sh: &Shard) -> std::path::PathBuf {
    sh.workdir.join("c15.counter")
}

impl Check for C15 {
    fn id(&self) -> &'static str {
        "C15"
    }
    fn level(&self) -> &'static str {
        "fault_enumeration"
    }
    fn work(&self, tier: Tier) -> Vec<WorkItem> {
        vec![WorkItem { mode: "job", count: std::env::var("VERIF_N").ok().and_then(|s| s.parse().ok()).unwrap_or(tier.pick(12, 120)) }]
    }
    fn evaluations_counter(&self) -> &'static str {
        "fault_runs"
    }
    fn rule(&self) -> String {
        format!("jobs = BMC (k=3; all bad states at once, or one at a time), PDR (jobs on profiles with unsat cores are chosen such that the run really asks for a core) and a direct SolverContext session (declare/assert/check-sat/get-value/push/pop/check-sat-assuming/get-unsat-assumptions/restart) on generated systems, each under one of the four solver profiles; a fault-free run counts the N response-bearing points of the conversation (check-sat, check-sat-assuming, get-value, get-unsat-assumptions; counted across restart() through a shared counter file); then for EVERY position n < N and EVERY fault kind of {:?} the job is re-run in a child process with the fault armed in the reference solver. Oracle: the call must return an error (or Unknown) - never Success/Fail, never a panic; for error replies the returned text must contain the injected message as one contiguous piece; the child must return within 1000 x fault-free time (clamped to 12..60 s), otherwise /proc is inspected: solver process gone or cpu burning = hang (violation), solver alive and idle = inconclusive. distinct_nontrivial = distinct (job, position, kind) triples executed.", FAULT_KINDS)
    }
    fn assumptions(&self) -> Vec<String> {
        vec!["every injected fault hits a response the job really waits for (positions are enumerated from a fault-free run of the same deterministic job)".into()]
    }
    fn prepare(&self, _tier: Tier) -> Result<(), String> {
        install_solvers()
    }
    fn shard_begin(&self, _sh: &mut Shard) {
        use_refsolver_path();
    }
    fn shard_end(&self, _sh: &mut Shard) {
        stop_z3_server();
    }
    fn nshards(&self, _tier: Tier) -> u64 {
        8
    }
    fn shard_timeout_s(&self, tier: Tier) -> u64 {
        tier.pick(2400, 6 * 3600)
    }
    fn run_case(&self, sh: &mut Shard, case: &CaseId) {
        let mut rng = Rng::new(sh.case_seed());
        ensure_z3_server(&sh.workdir.clone());
        let job = ["bmc", "pdr", "direct", "pdr", "bmc-ind", "pdr"][(case.n % 6) as usize];
        let persona = PERSONAS[((case.n / 6 + case.n) % 4) as usize];
        let kinds_file = std::path::PathBuf::from(format!("{}.kinds", counter_path(sh).display()));
        let counter = counter_path(sh);
        // find a job with a manageable conversation
        let mut chosen = None;
        for _ in 0..20 {
            let spec = format!("{job}:{}:{persona}", rng.next() % 1_000_000);
            let _ = std::fs::remove_file(&kinds_file);
            let base = run_child(sh, &spec, None, &counter, Duration::from_secs(60));
            let n: u64 = std::fs::read_to_string(&counter).ok().and_then(|s| s.trim().parse().ok()).unwrap_or(0);
            let kinds: Vec<String> = std::fs::read_to_string(&kinds_file).unwrap_or_default().lines().map(|l| l.to_string()).collect();
            // a PDR job is only interesting for this check if it generalises through unsat cores where the profile has them,
            // an individual-mode BMC job if several bad states are checked after one another
            let wants_core = job == "pdr" && persona != "yices-smt2";
            let has_core = kinds.iter().any(|k| k == "get-unsat-assumptions");
            if base.hang.is_none() && (base.verdict == "success" || base.verdict == "fail") && n >= 2 && n <= sh.tier.pick(40, 80) && kinds.len() as u64 == n && (!wants_core || has_core) {
                chosen = Some((spec, base, n, kinds));
                break;
            }
        }
        let Some((spec, base, npoints, kinds)) = chosen else {
            sh.count("jobs_without_suitable_conversation", 1);
            return;
        };
        sh.count("jobs", 1);
        sh.hist("jobs_by_kind", &format!("{job}|{persona}"));
        sh.count("response_points", npoints);
        let budget = Duration::from_secs_f64((base.wall.as_secs_f64() * 1000.0).clamp(12.0, 60.0));
        for n in 0..npoints {
            for kind in FAULT_KINDS {
                let o = run_child(sh, &spec, Some((kind, n)), &counter, budget);
                sh.count("fault_runs", 1);
                sh.hist("fault_runs_by_job_and_point", &format!("{job} @ {}", kinds[n as usize]));
                sh.distinct(util::mix(&[util::hash_str(&spec), n, util::hash_str(kind)]));
                sh.hist("outcomes", &format!("{kind} -> {}", o.verdict));
                let ctxt = format!("job `{spec}` ({} response points, fault-free verdict {}), fault `{kind}` at response point {n}", npoints, base.verdict);
                let sig_job = job;
                if let Some(reason) = &o.hang {
                    if reason.starts_with("INCONCLUSIVE") {
                        sh.inconclusive(format!("{ctxt}: {reason}"));
                    } else {
                        sh.violation(format!("C15|hang|{kind}|{sig_job}"), format!("{ctxt}: the call does not return: {reason}\n{}", o.system), json!({"spec": spec, "fault": kind, "at": n}));
                        continue;
                    }
                    continue;
                }
                match o.verdict.as_str() {
                    "success" | "fail" => {
                        sh.violation(format!("C15|verdict-despite-fault|{kind}|{sig_job}"), format!("{ctxt}: the call still reports `{}`\n{}", o.verdict, o.system), json!({"spec": spec, "fault": kind, "at": n}));
                    }
                    "panic" => {
                        let loc = o.text.split('|').next().unwrap_or("").to_string();
                        sh.violation(format!("C15|panic|{kind}|{loc}"), format!("{ctxt}: panic {}\n{}", o.text, o.system), json!({"spec": spec, "fault": kind, "at": n}));
                    }
                    "crash" => {
                        sh.violation(format!("C15|crash|{kind}|{sig_job}"), format!("{ctxt}: the process died without a result\n{}", o.system), json!({"spec": spec, "fault": kind, "at": n}));
                    }
                    "unknown" => {}
                    "error" => {
                        if let Some(len) = kind.strip_prefix("error-len-") {
                            let len: usize = len.parse().unwrap();
                            let msg: String = FAULT_MESSAGE.chars().take(len).collect();
                            // (only the solver's own message is pinned by the property, not the wording around it)
                            if !o.text.contains(&msg) {
                                sh.violation(format!("C15|message-mangled|{kind}"), format!("{ctxt}: injected message `{msg}` does not arrive intact: {:?}", o.text), json!({"spec": spec, "fault": kind, "at": n}));
                            }
                        }
                    }
                    other => sh.inconclusive(format!("{ctxt}: unexpected child outcome {other}")),
                }
            }
        }
        if sh.want_sample() {
            sh.sample(json!({"job": spec, "response_points": npoints, "fault_free_verdict": base.verdict, "fault_kinds": FAULT_KINDS.len()}));
        }
    }
    fn finalize(&self, m: &mut Merged, tier: Tier) {
        m.floor("fault runs", m.c("fault_runs"), tier.pick(300, 8_000));
        m.floor("jobs", m.c("jobs"), tier.pick(6, 60));
        for (what, floor) in [("pdr @ get-unsat-assumptions", tier.pick(28, 280)), ("pdr @ check", tier.pick(100, 1000)), ("bmc-ind @ check", tier.pick(28, 280)), ("bmc @ get-value", tier.pick(28, 280)), ("direct @ get-unsat-assumptions", 14)] {
            m.floor(&format!("fault runs at response points of kind `{what}`"), m.h("fault_runs_by_job_and_point", what), floor);
        }
        m.extra.insert("exhaustive_over_positions_and_kinds_per_job".into(), json!(true));
    }
}

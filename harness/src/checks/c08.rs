//! C08 The btor2 reader gives every construct its btor2 meaning

use crate::refsem::btor2_ref::{B2, Reject, Sort};
use crate::refsem::bv::{Bv, Val};
use crate::refsem::expr_eval::{self as r2, Env};
use crate::runner::*;
use crate::util::{self, Rng};
use crate::wl::btor2gen::{S, gen_btor2, sort_level_mutation};
use crate::wl::expr::{lit_shape, random_array, s_type};
use patronus::expr::{Context, ExprRef, Type};
use patronus::system::TransitionSystem;
use serde_json::json;
use std::collections::HashMap;

pub struct C08;

/// witnesses of known findings and hand-written corner cases
const DIRECTED: &[&str] = &[
    "1 sort bitvec 129\n2 consth 1 100000000000000000000000000000000\n3 state 1 s\n4 next 1 3 2\n5 sort bitvec 1\n6 eq 5 3 2\n7 bad 6\n",
    "1 sort bitvec 4\n2 input 1 a\n3 input 1 b\n4 sort bitvec 1\n5 slt 4 2 3\n6 ulte 4 -2 3\n7 nand 1 2 -3\n8 redxor 4 7\n9 xnor 4 5 -6\n10 bad 9\n11 output -8\n",
    "1 sort bitvec 3\n2 sort bitvec 2\n3 sort array 1 2\n4 state 3 mem\n5 zero 2\n6 init 3 4 5\n7 input 1 addr\n8 input 2 data\n9 write 3 4 7 8\n10 next 3 4 9\n11 read 2 4 -7\n12 sort bitvec 1\n13 redor 12 11\n14 bad 13\n",
];

fn sort_matches(t: Type, s: Sort) -> bool {
    match (t, s) {
        (Type::BV(w), Sort::Bv(v)) => w == v,
        (Type::Array(a), Sort::Arr(i, d)) => a.index_width == i && a.data_width == d,
        _ => false,
    }
}

fn random_val(rng: &mut Rng, s: Sort) -> Val {
    match s {
        Sort::Bv(w) => Val::B(Bv::new(w, lit_shape(rng, w))),
        Sort::Arr(i, d) => Val::A(random_array(rng, i, d)),
    }
}

pub struct Mapping {
    /// (line id, patronus symbol) for inputs and states
    pub syms: Vec<(i64, ExprRef)>,
    /// state line id -> index into sys.states
    pub state_idx: HashMap<i64, usize>,
}

/// positional correspondence between the text and the parsed system, as the text determines it
pub fn map_system(b: &B2, ctx: &Context, sys: &TransitionSystem) -> Result<Mapping, String> {
    let has_init_or_next: std::collections::HashSet<i64> = b.lines.iter().filter(|l| l.op == "init" || l.op == "next").map(|l| l.toks[1].parse::<i64>().unwrap()).collect();
    let mut input_lines: Vec<i64> = b.lines_with_op("input").map(|l| l.id).collect();
    let mut state_lines: Vec<i64> = vec![];
    for l in b.lines_with_op("state") {
        if has_init_or_next.contains(&l.id) {
            state_lines.push(l.id);
        } else {
            input_lines.push(l.id); // demoted, appended in state order
        }
    }
    if sys.inputs.len() != input_lines.len() {
        return Err(format!("{} inputs in the parsed system, the text determines {}", sys.inputs.len(), input_lines.len()));
    }
    if sys.states.len() != state_lines.len() {
        return Err(format!("{} states in the parsed system, the text determines {}", sys.states.len(), state_lines.len()));
    }
    let mut syms = vec![];
    let mut state_idx = HashMap::new();
    for (k, id) in input_lines.iter().enumerate() {
        if !ctx[sys.inputs[k]].is_symbol() || !sort_matches(s_type(ctx, sys.inputs[k]), b.node_sort[id]) {
            return Err(format!("input {k} (line {id}) has type {} but sort {:?} was declared", r2::render(ctx, sys.inputs[k]), b.node_sort[id]));
        }
        syms.push((*id, sys.inputs[k]));
    }
    for (k, id) in state_lines.iter().enumerate() {
        let s = sys.states[k].symbol;
        if !ctx[s].is_symbol() || !sort_matches(s_type(ctx, s), b.node_sort[id]) {
            return Err(format!("state {k} (line {id}) has type {} but sort {:?} was declared", r2::render(ctx, s), b.node_sort[id]));
        }
        syms.push((*id, s));
        state_idx.insert(*id, k);
    }
    Ok(Mapping { syms, state_idx })
}

/// op of the line that defines the node a reference points at
fn op_of_arg(b: &B2, tok: &str) -> String {
    let id: i64 = tok.parse().unwrap_or(0);
    b.by_id.get(&id.abs()).map(|i| b.lines[*i].op.clone()).unwrap_or_else(|| "?".into())
}

impl C08 {
    /// compare the parsed system with the reference reading of the text; true if everything agreed
    pub fn compare(&self, sh: &mut Shard, rng: &mut Rng, text: &str, b: &B2, ctx: &Context, sys: &TransitionSystem, nvals: usize) -> bool {
        let m = match map_system(b, ctx, sys) {
            Ok(m) => m,
            Err(d) => {
                sh.violation("C08|inputs-states-mismatch", format!("{d}\n{text}"), json!({"text": text}));
                return false;
            }
        };
        let outs: Vec<_> = b.lines_with_op("output").collect();
        let bads: Vec<_> = b.lines_with_op("bad").collect();
        let cons: Vec<_> = b.lines_with_op("constraint").collect();
        if outs.len() != sys.outputs.len() || bads.len() != sys.bad_states.len() || cons.len() != sys.constraints.len() {
            sh.violation("C08|roots-count-mismatch", format!("outputs/bads/constraints: text {}/{}/{} parsed {}/{}/{}\n{text}", outs.len(), bads.len(), cons.len(), sys.outputs.len(), sys.bad_states.len(), sys.constraints.len()), json!({"text": text}));
            return false;
        }
        for _ in 0..nvals {
            let mut valuation: HashMap<i64, Val> = HashMap::new();
            let mut env = Env::default();
            for (id, sym) in m.syms.iter() {
                let v = random_val(rng, b.node_sort[id]);
                valuation.insert(*id, v.clone());
                env.insert(*sym, v);
            }
            let mut memo5: HashMap<i64, Val> = HashMap::new();
            let mut memo2 = Env::default();
            let mut pairs: Vec<(String, Val, ExprRef, String)> = vec![];
            for (k, l) in outs.iter().enumerate() {
                pairs.push((format!("output[{k}] (line {})", l.id), b.eval_ref(l.toks[0].parse().unwrap(), &valuation, &mut memo5), sys.outputs[k].expr, op_of_arg(b, &l.toks[0])));
            }
            for (k, l) in bads.iter().enumerate() {
                pairs.push((format!("bad[{k}] (line {})", l.id), b.eval_ref(l.toks[0].parse().unwrap(), &valuation, &mut memo5), sys.bad_states[k], op_of_arg(b, &l.toks[0])));
            }
            for (k, l) in cons.iter().enumerate() {
                pairs.push((format!("constraint[{k}] (line {})", l.id), b.eval_ref(l.toks[0].parse().unwrap(), &valuation, &mut memo5), sys.constraints[k], op_of_arg(b, &l.toks[0])));
            }
            // init / next: the last line for a state wins
            let mut last_init: HashMap<i64, &crate::refsem::btor2_ref::Line> = HashMap::new();
            let mut last_next: HashMap<i64, &crate::refsem::btor2_ref::Line> = HashMap::new();
            for l in b.lines.iter() {
                if l.op == "init" {
                    last_init.insert(l.toks[1].parse().unwrap(), l);
                } else if l.op == "next" {
                    last_next.insert(l.toks[1].parse().unwrap(), l);
                }
            }
            for (st, k) in m.state_idx.iter() {
                match (last_init.get(st), sys.states[*k].init) {
                    (Some(l), Some(e)) => pairs.push((format!("init of state line {st}"), b.init_value(l, &valuation, &mut memo5), e, op_of_arg(b, &l.toks[2]))),
                    (None, None) => {}
                    _ => {
                        sh.violation("C08|init-presence", format!("state line {st}: init present in text: {}, in parsed system: {}\n{text}", last_init.contains_key(st), sys.states[*k].init.is_some()), json!({"text": text}));
                        return false;
                    }
                }
                match (last_next.get(st), sys.states[*k].next) {
                    (Some(l), Some(e)) => pairs.push((format!("next of state line {st}"), b.eval_ref(l.toks[2].parse().unwrap(), &valuation, &mut memo5), e, op_of_arg(b, &l.toks[2]))),
                    (None, None) => {}
                    _ => {
                        sh.violation("C08|next-presence", format!("state line {st}: next present in text: {}, in parsed system: {}\n{text}", last_next.contains_key(st), sys.states[*k].next.is_some()), json!({"text": text}));
                        return false;
                    }
                }
            }
            for (what, want, e, op) in pairs {
                sh.count("values_compared", 1);
                match r2::eval_memo(ctx, &env, &mut memo2, e) {
                    Ok(got) if got == want => {}
                    Ok(got) => {
                        // find the first line whose value differs, to name the operator
                        let culprit = self.localise(b, ctx, sys, &m, &valuation, &env);
                        let opname = culprit.as_ref().map(|c| c.0.clone()).unwrap_or(op);
                        sh.violation(
                            format!("C08|value|op={opname}"),
                            format!(
                                "{what}: btor2 semantics gives {}, the parsed system evaluates to {}\nparsed expression: {}\n{}valuation (by line id): {:?}\n{text}",
                                want.show(),
                                got.show(),
                                util::trunc(&r2::render(ctx, e), 400),
                                culprit.map(|c| format!("first differing definition: {}\n", c.1)).unwrap_or_default(),
                                valuation.iter().map(|(k, v)| (k, v.show())).collect::<Vec<_>>()
                            ),
                            json!({"text": text}),
                        );
                        return false;
                    }
                    Err(err) => {
                        sh.violation("C08|unbound-symbol", format!("{what}: {}\n{text}", err.0), json!({"text": text}));
                        return false;
                    }
                }
            }
        }
        true
    }

    /// name the operator of the first line (in file order) that is used directly by a root and differs;
    /// falls back to None. Works by re-parsing the file truncated after each op line with an extra output.
    fn localise(&self, b: &B2, _ctx: &Context, _sys: &TransitionSystem, _m: &Mapping, valuation: &HashMap<i64, Val>, _env: &Env) -> Option<(String, String)> {
        // build, for every value line, a tiny file: all lines up to it + "output <id>"
        let value_lines: Vec<&crate::refsem::btor2_ref::Line> = b.lines.iter().filter(|l| b.node_sort.contains_key(&l.id) && !matches!(l.op.as_str(), "input" | "state")).collect();
        for vl in value_lines {
            let mut text = String::new();
            for l in b.lines.iter() {
                if l.lineno > vl.lineno {
                    break;
                }
                if matches!(l.op.as_str(), "bad" | "constraint" | "output" | "init" | "next") {
                    continue;
                }
                text.push_str(&format!("{} {} {}\n", l.id, l.op, l.toks.join(" ")));
            }
            // keep states as states: give each a next
            for l in b.lines.iter().filter(|l| l.op == "state" && l.lineno < vl.lineno) {
                text.push_str(&format!("{} next {} {} {}\n", 1_000_000 + l.id, l.toks[0], l.id, l.id));
            }
            if matches!(b.node_sort[&vl.id], Sort::Arr(..)) {
                continue;
            }
            text.push_str(&format!("{} output {}\n", 2_000_000, vl.id));
            let mut c2 = Context::default();
            let Ok(Some(s2)) = util::catch(|| patronus::btor2::parse_str(&mut c2, &text, Some("loc"))) else { continue };
            let Ok(b2) = B2::load(&text) else { continue };
            let Ok(m2) = map_system(&b2, &c2, &s2) else { continue };
            let mut env2 = Env::default();
            for (id, sym) in m2.syms.iter() {
                if let Some(v) = valuation.get(id) {
                    env2.insert(*sym, v.clone());
                }
            }
            if env2.len() != m2.syms.len() || s2.outputs.len() != 1 {
                continue;
            }
            let mut memo = HashMap::new();
            let want = b2.eval_ref(vl.id, valuation, &mut memo);
            if let Ok(got) = r2::eval(&c2, &env2, s2.outputs[0].expr) {
                if got != want {
                    return Some((vl.op.clone(), format!("line `{} {} {}`: btor2 value {}, parsed value {}", vl.id, vl.op, vl.toks.join(" "), want.show(), got.show())));
                }
            }
        }
        None
    }
}

impl C08 {
    /// the btor2 files shipped with the repository, as far as the reference reader covers them
    fn corpus(&self, sh: &mut Shard, rng: &mut Rng, n: usize) {
        let files = super::c11::corpus_files();
        let Some(path) = files.get(n) else { return };
        let Ok(text) = std::fs::read_to_string(path) else { return };
        let name = util::short_path(&path.to_string_lossy());
        sh.count("corpus_files", 1);
        if text.len() > 400_000 {
            sh.count("corpus_files_skipped_for_size", 1);
            return;
        }
        let b = match B2::load(&text) {
            Ok(b) => b,
            Err(r) => {
                // outside the fragment the reference reader implements (or deliberately malformed test input)
                let why = format!("{r:?}");
                sh.hist("corpus_files_outside_the_reference_reader", why.split(['(', ' ']).next().unwrap_or("?"));
                return;
            }
        };
        let mut ctx = Context::default();
        match util::catch(|| patronus::btor2::parse_str(&mut ctx, &text, Some("corpus"))) {
            Err(p) if p.in_harness() => sh.inconclusive(format!("harness panic {} {}", p.loc(), p.msg)),
            Err(p) => sh.violation(format!("C08|corpus|panic|{}", p.loc()), format!("parse_str panicked on {name} at {}: {}", p.loc(), util::trunc(&p.msg, 200)), json!({"file": name})),
            Ok(None) => sh.violation(format!("C08|corpus|rejected|{name}"), format!("parse_str rejected {name}, which the reference reader considers well-formed ({})", rejection_cause(&b)), json!({"file": name})),
            Ok(Some(sys)) => {
                if self.compare(sh, rng, &format!("file: {name}"), &b, &ctx, &sys, 3) {
                    sh.count("corpus_files_compared", 1);
                    sh.distinct(util::hash_str(&text));
                }
            }
        }
    }
}

impl Check for C08 {
    fn id(&self) -> &'static str {
        "C08"
    }
    fn work(&self, tier: Tier) -> Vec<WorkItem> {
        vec![WorkItem { mode: "directed", count: DIRECTED.len() as u64 }, WorkItem { mode: "gen", count: tier.pick(300_000, 15_000_000) }, WorkItem { mode: "corpus", count: super::c11::corpus_files().len() as u64 }]
    }
    fn evaluations_counter(&self) -> &'static str {
        "values_compared"
    }
    fn rule(&self) -> String {
        "G3(a) grammar-directed well-formed btor2 files (1-3 inputs, 1-4 states incl. arrays, 4-40 operator lines over every supported operator, negated operand ids, const/constd/consth/zero/one/ones, sorts declared lazily, non-consecutive ids, names/comments); each file is read by the independent reference interpreter R5 (text level) and by parse_str; inputs/states matched positionally (states without init/next are demoted to inputs, as documented), sorts compared, and every output/bad/constraint/init/next evaluated on 6 corner-biased valuations by R2 on the parsed system vs R5 on the referenced line. Plus 2 ill-sorted variants per file: one numeric token (sort id, operand id, width, slice bound) changed; if R5's BTOR2 sort checker says the declared sort disagrees with the operands, parse_str must not return a system; variants that stay well-sorted are judged as new files. mode corpus: every btor2 file under /repo/inputs (<= 400 kB) that R5 can read is compared in the same way on 3 valuations (files using constructs outside R5 are counted per reason, not judged). distinct_nontrivial = distinct generated files (all have >= 4 operator lines) + corpus files.".into()
    }
    fn assumptions(&self) -> Vec<String> {
        vec!["R5 is the arbiter of well-formed / ill-sorted (BTOR2 paper typing rules); only undebatable constant spellings are generated".into()]
    }
    fn shard_begin(&self, sh: &mut Shard) {
        if !sh.verbose {
            silence_stderr();
        }
    }
    fn run_case(&self, sh: &mut Shard, case: &CaseId) {
        let mut rng = Rng::new(sh.case_seed());
        if case.mode == "corpus" {
            self.corpus(sh, &mut rng, case.n as usize);
            return;
        }
        let (text, ops) = if case.mode == "directed" {
            match DIRECTED.get(case.n as usize) {
                Some(t) => (t.to_string(), vec![]),
                None => return,
            }
        } else {
            gen_btor2(&mut rng)
        };
        let b = match B2::load(&text) {
            Ok(b) => b,
            Err(r) => {
                sh.inconclusive(format!("generator output rejected by the reference reader: {r:?}\n{text}"));
                return;
            }
        };
        sh.distinct(util::hash_str(&text));
        let mut ctx = Context::default();
        let parsed = util::catch(|| patronus::btor2::parse_str(&mut ctx, &text, Some("gen")));
        match parsed {
            Err(p) => {
                if p.in_harness() {
                    sh.inconclusive(format!("harness panic {} {}", p.loc(), p.msg));
                } else {
                    sh.violation(format!("C08|panic|{}", p.loc()), format!("parse_str panicked on a well-formed file at {}: {}\n{text}", p.loc(), util::trunc(&p.msg, 200)), json!({"text": text}));
                }
                return;
            }
            Ok(None) => {
                sh.count("rejected_wellformed", 1);
                let cause = rejection_cause(&b);
                sh.violation(format!("C08|rejected-wellformed|{cause}"), format!("parse_str rejected a file the reference reader considers well-formed ({cause})\n{text}"), json!({"text": text}));
                return;
            }
            Ok(Some(sys)) => {
                sh.count("files_parsed", 1);
                if self.compare(sh, &mut rng, &text, &b, &ctx, &sys, 6) {
                    for (op, s, neg) in ops.iter() {
                        let sc = match s {
                            S::Bv(1) => "bv1",
                            S::Bv(2..=8) => "bv2-8",
                            S::Bv(9..=64) => "bv9-64",
                            S::Bv(_) => "bv>64",
                            S::Arr(..) => "array",
                        };
                        sh.hist("operators", op);
                        sh.hist("operator_x_sort", &format!("{op}@{sc}"));
                        if *neg {
                            sh.hist("operators_with_negated_operand", op);
                        }
                    }
                    if sh.want_sample() {
                        sh.sample(json!({"btor2": text}));
                    }
                } else {
                    return;
                }
            }
        }
        // ill-sorted variants
        for _ in 0..2 {
            let Some(mt) = sort_level_mutation(&mut rng, &text) else { continue };
            sh.count("variants", 1);
            match B2::load(&mt) {
                Err(Reject::IllSorted(lineno, why)) => {
                    sh.count("illsorted_variants", 1);
                    let mut c2 = Context::default();
                    match util::catch(|| patronus::btor2::parse_str(&mut c2, &mt, Some("mut"))) {
                        Ok(Some(_)) => {
                            let op = mt.lines().nth(lineno).and_then(|l| l.split(' ').nth(1)).unwrap_or("?").to_string();
                            sh.violation(format!("C08|illsorted-accepted|op={op}"), format!("line {}: {why}; parse_str returned a system\n{mt}", lineno + 1), json!({"text": mt}));
                            return;
                        }
                        Ok(None) => sh.count("illsorted_rejected", 1),
                        Err(_) => sh.count("illsorted_panicked_see_C18", 1),
                    }
                }
                Ok(b2) => {
                    sh.count("variants_still_wellformed", 1);
                    let mut c2 = Context::default();
                    match util::catch(|| patronus::btor2::parse_str(&mut c2, &mt, Some("mut"))) {
                        Ok(Some(s2)) => {
                            if !self.compare(sh, &mut rng, &mt, &b2, &c2, &s2, 3) {
                                return;
                            }
                        }
                        Ok(None) => {
                            // same classification as for generated files (the known consth limitation of the value library can be reached by changing a sort id)
                            let cause = rejection_cause(&b2);
                            sh.violation(format!("C08|rejected-wellformed|{cause}"), format!("parse_str rejected a variant the reference reader considers well-formed ({cause})\n{mt}"), json!({"text": mt}));
                            return;
                        }
                        Err(p) => {
                            sh.violation(format!("C08|panic|{}", p.loc()), format!("parse_str panicked on a well-formed variant at {}: {}\n{mt}", p.loc(), util::trunc(&p.msg, 200)), json!({"text": mt}));
                            return;
                        }
                    }
                }
                Err(_) => sh.count("variants_malformed_skipped", 1),
            }
        }
    }
    fn finalize(&self, m: &mut Merged, tier: Tier) {
        let all_ops: Vec<&str> = crate::wl::btor2gen::BIN_SAME
            .iter()
            .chain(crate::wl::btor2gen::BIN_CMP.iter())
            .chain(crate::wl::btor2gen::UNARY.iter())
            .chain(["sext", "uext", "slice", "iff", "implies", "eq", "neq", "concat", "read", "write", "ite"].iter())
            .copied()
            .collect();
        let min_op = all_ops.iter().map(|o| m.h("operators", o)).min().unwrap_or(0);
        m.floor("occurrences of the least-used supported operator", min_op, tier.pick(1000, 50_000));
        let min_neg = all_ops.iter().filter(|o| !matches!(**o, "read" | "write")).map(|o| m.h("operators_with_negated_operand", o)).min().unwrap_or(0);
        m.floor("least-used operator: occurrences with a negated operand", min_neg, tier.pick(100, 5_000));
        m.floor("ill-sorted variants judged", m.c("illsorted_variants"), tier.pick(50_000, 2_500_000));
        m.floor("shipped btor2 files compared with the reference reading", m.c("corpus_files_compared"), 100);
    }
}

/// which single line makes the reader reject a well-formed file? (constants are tried in isolation)
fn rejection_cause(b: &B2) -> String {
    for l in b.lines.iter().filter(|l| matches!(l.op.as_str(), "const" | "constd" | "consth")) {
        let Sort::Bv(w) = b.node_sort[&l.id] else { continue };
        let mini = format!("1 sort bitvec {w}\n2 {} 1 {}\n3 output 2\n", l.op, l.toks[1]);
        let mut c = Context::default();
        if let Ok(None) = util::catch(|| patronus::btor2::parse_str(&mut c, &mini, Some("mini"))) {
            let digits = l.toks[1].len() as u32;
            if l.op == "consth" && w > 128 && digits * 4 > w {
                return "consth|wider-than-128|digits-times-4-exceed-width".into();
            }
            return format!("{}|other", l.op);
        }
    }
    "unknown-cause".into()
}

pub fn silence_stderr() {
    unsafe {
        let devnull = libc::open(c"/dev/null".as_ptr(), libc::O_WRONLY);
        if devnull >= 0 {
            libc::dup2(devnull, 2);
            libc::close(devnull);
        }
    }
}

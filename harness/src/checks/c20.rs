//! C20 Value summaries denote a total function

use crate::refsem::expr_eval::{self as r2, Env};
use crate::runner::*;
use crate::util::{self, Rng};
use crate::wl::expr::nth_env;
use patronus::expr::{Context, Expr, ExprRef, TypeCheck};
use patronus_dse::{GuardCtx, ValueSummary};
use serde_json::json;
use std::collections::HashMap;

pub struct C20;

/// specification of guard conversion: boolean connectives over 1-bit operands are interpreted,
/// literals are constants, everything else is a terminal looked up in the valuation
fn truth(ctx: &Context, e: ExprRef, sigma: &HashMap<ExprRef, bool>) -> bool {
    let one_bit = |x: &ExprRef| x.get_type(ctx) == patronus::expr::Type::BV(1);
    match &ctx[e] {
        Expr::BVLiteral(v) => v.is_true(),
        Expr::BVNot(a, _) if one_bit(a) => !truth(ctx, *a, sigma),
        Expr::BVAnd(a, b, _) if one_bit(a) => truth(ctx, *a, sigma) && truth(ctx, *b, sigma),
        Expr::BVOr(a, b, _) if one_bit(a) => truth(ctx, *a, sigma) || truth(ctx, *b, sigma),
        Expr::BVXor(a, b, _) if one_bit(a) => truth(ctx, *a, sigma) ^ truth(ctx, *b, sigma),
        Expr::BVImplies(a, b) => !truth(ctx, *a, sigma) || truth(ctx, *b, sigma),
        _ => *sigma.get(&e).unwrap_or(&false),
    }
}

/// terminals an expression will contribute
fn terminals_of(ctx: &Context, e: ExprRef, out: &mut Vec<ExprRef>) {
    let one_bit = |x: &ExprRef| x.get_type(ctx) == patronus::expr::Type::BV(1);
    match &ctx[e] {
        Expr::BVLiteral(_) => {}
        Expr::BVNot(a, _) if one_bit(a) => terminals_of(ctx, *a, out),
        Expr::BVAnd(a, b, _) | Expr::BVOr(a, b, _) | Expr::BVXor(a, b, _) if one_bit(a) => {
            terminals_of(ctx, *a, out);
            terminals_of(ctx, *b, out);
        }
        Expr::BVImplies(a, b) => {
            terminals_of(ctx, *a, out);
            terminals_of(ctx, *b, out);
        }
        _ => {
            if !out.contains(&e) {
                out.push(e);
            }
        }
    }
}

struct World {
    ctx: Context,
    gc: GuardCtx,
    /// the (at most 6) guard terminals of this history
    terminals: Vec<ExprRef>,
    /// base symbols of the terminals, for consistent valuations
    base_syms: Vec<ExprRef>,
    values: Vec<ExprRef>,
}

/// a summary together with its denotation: value per valuation index
struct Tracked {
    vs: ValueSummary<ExprRef>,
    shadow: Vec<ExprRef>,
    boolean: bool,
}

fn sigma_of(w: &World, k: usize) -> HashMap<ExprRef, bool> {
    w.terminals.iter().enumerate().map(|(i, t)| (*t, (k >> i) & 1 == 1)).collect()
}

fn gen_bool(rng: &mut Rng, w: &mut World, depth: u32) -> ExprRef {
    if depth == 0 || rng.chance(1, 4) {
        return match rng.below(8) {
            0 => w.ctx.get_true(),
            1 => w.ctx.get_false(),
            _ => *rng.pick(&w.terminals),
        };
    }
    let a = gen_bool(rng, w, depth - 1);
    let b = gen_bool(rng, w, depth - 1);
    match rng.below(5) {
        0 => w.ctx.not(a),
        1 => w.ctx.and(a, b),
        2 => w.ctx.or(a, b),
        3 => w.ctx.xor(a, b),
        _ => w.ctx.implies(a, b),
    }
}

fn op_a(ctx: &mut Context, a: ExprRef, b: ExprRef) -> ExprRef {
    ctx.add(a, b)
}
fn op_b(ctx: &mut Context, a: ExprRef, b: ExprRef) -> ExprRef {
    ctx.xor(a, b)
}
fn op_c(ctx: &mut Context, a: ExprRef, _b: ExprRef) -> ExprRef {
    // an operation that maps different operand pairs to equal results (feeds coalescing)
    ctx.slice(a, 0, 0)
}
fn op_and(ctx: &mut Context, a: ExprRef, b: ExprRef) -> ExprRef {
    ctx.and(a, b)
}

impl C20 {
    /// partition + denotation check of one summary over all terminal valuations
    fn check(&self, sh: &mut Shard, w: &World, t: &Tracked, after: &str, log: &[String]) -> Result<(), (String, String)> {
        let entries = t.vs.verif_entries();
        let n = 1usize << w.terminals.len();
        for k in 0..n {
            let sigma = sigma_of(w, k);
            sh.count("valuations_checked", 1);
            let holding: Vec<usize> = entries.iter().enumerate().filter(|(_, (g, _))| w.gc.verif_eval(*g, &sigma)).map(|(i, _)| i).collect();
            if holding.len() != 1 {
                let kind = if holding.is_empty() { "not-exhaustive" } else { "not-disjoint" };
                return Err((
                    format!("partition|{kind}|after={after}"),
                    format!("after `{after}`: {} entries hold under valuation {:?} (entries: {})\nhistory: {}", holding.len(), show_sigma(w, &sigma), entries.len(), log.join("; ")),
                ));
            }
            let got = entries[holding[0]].1;
            let want = t.shadow[k];
            let same = if t.boolean && after == "import_into_guard" { truth(&w.ctx, got, &sigma) == truth(&w.ctx, want, &sigma) && (w.ctx[got].is_true() || w.ctx[got].is_false()) } else { got == want };
            if !same {
                return Err((
                    format!("denotation|after={after}"),
                    format!("after `{after}`: under valuation {:?} the summary yields {} but the operation applied to the argument values gives {}\nhistory: {}", show_sigma(w, &sigma), r2::render(&w.ctx, got), r2::render(&w.ctx, want), log.join("; ")),
                ));
            }
        }
        Ok(())
    }
}

fn show_sigma(w: &World, sigma: &HashMap<ExprRef, bool>) -> Vec<String> {
    w.terminals.iter().map(|t| format!("{}={}", r2::render(&w.ctx, *t), sigma[t] as u8)).collect()
}

impl Check for C20 {
    fn id(&self) -> &'static str {
        "C20"
    }
    fn work(&self, tier: Tier) -> Vec<WorkItem> {
        vec![WorkItem { mode: "directed", count: 2 }, WorkItem { mode: "hist", count: tier.pick(120_000, 4_000_000) }]
    }
    fn evaluations_counter(&self) -> &'static str {
        "valuations_checked"
    }
    fn rule(&self) -> String {
        "G6 histories of 4..25 operations over a pool of summaries: new(value), apply_bin_op (three uninterpreted constructors, one of which maps different operands to equal results), apply_ite whose condition is a fresh summary of a random boolean expression or a boolean summary of the pool (several entries, imported or not), coalesce, import_into_guard (boolean summaries), expr_to_guard. Guard terminals (at most 6 per history) are not only 1-bit symbols: ugt/eq/sgte over 2-bit symbols, a 1-bit array read and an ite, i.e. expressions whose children must not be imported into the BDD. After EVERY operation, for ALL 2^t valuations of the terminals (hook H1: verif_entries, verif_eval): exactly one entry guard holds and its value equals the denotational shadow (reference equality; truth value for imported boolean summaries); expr_to_guard is compared with the specification on all valuations and with the reference evaluator on all consistent valuations of the base symbols. distinct_nontrivial = distinct histories with at least one summary of more than one entry.".into()
    }
    fn assumptions(&self) -> Vec<String> {
        vec!["binary operations are uninterpreted constructors, so value equality is reference equality".into()]
    }
    fn run_case(&self, sh: &mut Shard, case: &CaseId) {
        let mut rng = Rng::new(sh.case_seed());
        let mut ctx = Context::default();
        // terminals
        let p = ctx.bv_symbol("p", 1);
        let q = ctx.bv_symbol("q", 1);
        let x = ctx.bv_symbol("x", 2);
        let y = ctx.bv_symbol("y", 2);
        let m = ctx.array_symbol("m", 1, 1);
        let ugt = ctx.greater(x, y);
        let eq = ctx.equal(x, y);
        let sgte = ctx.greater_or_equal_signed(y, x);
        let rd = ctx.array_read(m, p);
        let ite = ctx.ite(q, ugt, p);
        let all_terms = [p, q, ugt, eq, sgte, rd, ite];
        let mut terminals: Vec<ExprRef> = vec![];
        let nt = rng.range(2, 6) as usize;
        let mut cand: Vec<ExprRef> = all_terms.to_vec();
        rng.shuffle(&mut cand);
        if case.mode == "directed" {
            terminals = vec![p, ugt, q];
        } else {
            terminals.extend(cand.into_iter().take(nt));
        }
        let values: Vec<ExprRef> = (0..5).map(|i| ctx.bv_symbol(&format!("v{i}"), 8)).collect();
        let mut w = World { ctx, gc: GuardCtx::default(), terminals, base_syms: vec![p, q, x, y, m], values };
        let nval = 1usize << w.terminals.len();
        let mut pool: Vec<Tracked> = vec![];
        let mut log: Vec<String> = vec![];
        let mut multi_entry = false;
        let nops = if case.mode == "directed" { 6 } else { rng.range(4, 25) };
        for opi in 0..nops {
            let choice = if case.mode == "directed" { [0u64, 0, 6, 2, 0, 3][opi as usize % 6] + if case.n == 1 && opi == 2 { 0 } else { 0 } } else { rng.below(10) };
            let fail = |sh: &mut Shard, sig: String, d: String| sh.violation(format!("C20|{sig}"), d, json!({}));
            match choice {
                0 | 1 => {
                    let boolean = rng.chance(1, 3);
                    let v = if boolean { gen_bool(&mut rng, &mut w, 2) } else { *rng.pick(&w.values) };
                    log.push(format!("new({})", r2::render(&w.ctx, v)));
                    sh.hist("ops", "new");
                    let vs = ValueSummary::new(&mut w.gc, v);
                    pool.push(Tracked { vs, shadow: vec![v; nval], boolean });
                }
                2 | 3 | 4 => {
                    // ite with a condition built from a boolean expression
                    let nonbool: Vec<usize> = pool.iter().enumerate().filter(|(_, t)| !t.boolean).map(|(i, _)| i).collect();
                    if nonbool.len() < 2 {
                        continue;
                    }
                    let i = *rng.pick(&nonbool);
                    let tru = pool.remove(i);
                    let nonbool: Vec<usize> = pool.iter().enumerate().filter(|(_, t)| !t.boolean).map(|(i, _)| i).collect();
                    let j = *rng.pick(&nonbool);
                    let fals = pool.remove(j);
                    // the condition: a fresh summary of a boolean expression, or a boolean summary of the pool
                    // (possibly with several entries, possibly already imported, i.e. holding literal true / false)
                    let bools: Vec<usize> = pool.iter().enumerate().filter(|(_, t)| t.boolean).map(|(i, _)| i).collect();
                    let (cond, cond_shadow): (ValueSummary<ExprRef>, Vec<ExprRef>) = if !bools.is_empty() && rng.flip() {
                        let b = pool.remove(*rng.pick(&bools));
                        log.push(format!("apply_ite(<boolean summary with {} entries>, _, _)", b.vs.len()));
                        sh.hist("apply_ite_condition_entries", &b.vs.len().min(4).to_string());
                        (b.vs, b.shadow)
                    } else {
                        let c = gen_bool(&mut rng, &mut w, 3);
                        log.push(format!("apply_ite(new({}), _, _)", r2::render(&w.ctx, c)));
                        sh.hist("apply_ite_condition_entries", "fresh");
                        (ValueSummary::new(&mut w.gc, c), vec![c; nval])
                    };
                    sh.hist("ops", "apply_ite");
                    let shadow: Vec<ExprRef> = (0..nval).map(|k| if truth(&w.ctx, cond_shadow[k], &sigma_of(&w, k)) { tru.shadow[k] } else { fals.shadow[k] }).collect();
                    let r = util::catch(|| ValueSummary::apply_ite(&mut w.ctx, &mut w.gc, cond, tru.vs, fals.vs));
                    match r {
                        Ok(vs) => pool.push(Tracked { vs, shadow, boolean: false }),
                        Err(pi) => {
                            fail(sh, format!("panic|apply_ite|{}", pi.loc()), format!("apply_ite panicked at {}: {}\nhistory: {}", pi.loc(), util::trunc(&pi.msg, 200), log.join("; ")));
                            return;
                        }
                    }
                }
                5 | 6 => {
                    let nonbool: Vec<usize> = pool.iter().enumerate().filter(|(_, t)| !t.boolean).map(|(i, _)| i).collect();
                    if nonbool.len() < 2 {
                        continue;
                    }
                    let i = *rng.pick(&nonbool);
                    let a = pool.remove(i);
                    let nonbool: Vec<usize> = pool.iter().enumerate().filter(|(_, t)| !t.boolean).map(|(i, _)| i).collect();
                    let j = *rng.pick(&nonbool);
                    let b = pool.remove(j);
                    let (name, op): (&str, fn(&mut Context, ExprRef, ExprRef) -> ExprRef) = match rng.below(3) {
                        0 => ("add", op_a),
                        1 => ("xor", op_b),
                        _ => ("lsb-of-first", op_c),
                    };
                    let wa = a.shadow[0].get_type(&w.ctx);
                    let wb = b.shadow[0].get_type(&w.ctx);
                    if wa != wb {
                        pool.push(a);
                        pool.push(b);
                        continue;
                    }
                    log.push(format!("apply_bin_op({name})"));
                    sh.hist("ops", "apply_bin_op");
                    let shadow: Vec<ExprRef> = (0..nval).map(|k| op(&mut w.ctx, a.shadow[k], b.shadow[k])).collect();
                    match util::catch(|| ValueSummary::apply_bin_op(&mut w.ctx, &mut w.gc, op, a.vs, b.vs)) {
                        Ok(vs) => pool.push(Tracked { vs, shadow, boolean: false }),
                        Err(pi) => {
                            fail(sh, format!("panic|apply_bin_op|{}", pi.loc()), format!("apply_bin_op panicked at {}: {}\nhistory: {}", pi.loc(), pi.msg, log.join("; ")));
                            return;
                        }
                    }
                }
                7 => {
                    if pool.is_empty() {
                        continue;
                    }
                    let i = rng.usize(pool.len());
                    log.push("coalesce".into());
                    sh.hist("ops", "coalesce");
                    let before = pool[i].vs.len();
                    if let Err(pi) = util::catch(|| pool[i].vs.coalesce(&mut w.gc)) {
                        fail(sh, format!("panic|coalesce|{}", pi.loc()), format!("coalesce panicked: {}\nhistory: {}", pi.msg, log.join("; ")));
                        return;
                    }
                    if pool[i].vs.len() < before {
                        sh.count("coalesce_merged_entries", 1);
                    }
                    // move to the end so that the check below looks at it
                    let t = pool.remove(i);
                    pool.push(t);
                }
                8 => {
                    // boolean summaries: and of two, then import
                    let bools: Vec<usize> = pool.iter().enumerate().filter(|(_, t)| t.boolean).map(|(i, _)| i).collect();
                    if bools.is_empty() {
                        continue;
                    }
                    let i = *rng.pick(&bools);
                    let mut t = pool.remove(i);
                    let bools: Vec<usize> = pool.iter().enumerate().filter(|(_, t)| t.boolean).map(|(i, _)| i).collect();
                    if !bools.is_empty() && rng.flip() {
                        let j = *rng.pick(&bools);
                        let b = pool.remove(j);
                        log.push("apply_bin_op(and)".into());
                        let shadow: Vec<ExprRef> = (0..nval).map(|k| op_and(&mut w.ctx, t.shadow[k], b.shadow[k])).collect();
                        match util::catch(|| ValueSummary::apply_bin_op(&mut w.ctx, &mut w.gc, op_and, t.vs, b.vs)) {
                            Ok(vs) => t = Tracked { vs, shadow, boolean: true },
                            Err(pi) => {
                                fail(sh, format!("panic|apply_bin_op|{}", pi.loc()), format!("{}\nhistory: {}", pi.msg, log.join("; ")));
                                return;
                            }
                        }
                    }
                    log.push("import_into_guard".into());
                    sh.hist("ops", "import_into_guard");
                    if let Err(pi) = util::catch(|| t.vs.import_into_guard(&mut w.ctx, &mut w.gc)) {
                        fail(sh, format!("panic|import_into_guard|{}", pi.loc()), format!("import_into_guard panicked at {}: {}\nvalues: {:?}\nhistory: {}", pi.loc(), util::trunc(&pi.msg, 200), t.shadow.iter().take(4).map(|e| r2::render(&w.ctx, *e)).collect::<Vec<_>>(), log.join("; ")));
                        return;
                    }
                    pool.push(t);
                    let t = pool.last().unwrap();
                    if let Err((sig, d)) = self.check(sh, &w, t, "import_into_guard", &log) {
                        fail(sh, sig, d);
                        return;
                    }
                    // from here on the summary holds the canonical true / false values
                    let (tt, ff) = (w.ctx.get_true(), w.ctx.get_false());
                    let canon: Vec<ExprRef> = (0..nval).map(|k| if truth(&w.ctx, pool.last().unwrap().shadow[k], &sigma_of(&w, k)) { tt } else { ff }).collect();
                    pool.last_mut().unwrap().shadow = canon;
                    continue;
                }
                _ => {
                    // expr_to_guard against the specification and the reference evaluator
                    let e = gen_bool(&mut rng, &mut w, 3);
                    log.push(format!("expr_to_guard({})", r2::render(&w.ctx, e)));
                    sh.hist("ops", "expr_to_guard");
                    let g = match util::catch(|| w.gc.expr_to_guard(&w.ctx, e)) {
                        Ok(g) => g,
                        Err(pi) => {
                            let mut ts = vec![];
                            terminals_of(&w.ctx, e, &mut ts);
                            let has_children = ts.iter().any(|t| !r2::children(&w.ctx, *t).is_empty());
                            fail(sh, format!("panic|expr_to_guard|{}|{}", pi.loc(), if has_children { "terminal-with-children" } else { "plain-terminals" }), format!("expr_to_guard panicked at {}: {}\nexpression: {}", pi.loc(), util::trunc(&pi.msg, 200), r2::render(&w.ctx, e)));
                            return;
                        }
                    };
                    for k in 0..nval {
                        let sigma = sigma_of(&w, k);
                        sh.count("valuations_checked", 1);
                        if w.gc.verif_eval(g, &sigma) != truth(&w.ctx, e, &sigma) {
                            fail(sh, "expr_to_guard|differs-from-expression".into(), format!("guard of {} is {} under {:?}", r2::render(&w.ctx, e), w.gc.verif_eval(g, &sigma), show_sigma(&w, &sigma)));
                            return;
                        }
                    }
                    // consistent valuations: terminals take the values the reference evaluator gives them
                    let bits: u32 = 1 + 1 + 2 + 2 + 2;
                    for k in 0..(1u64 << bits) {
                        let env: Env = nth_env(&w.ctx, &w.base_syms, k);
                        let sigma: HashMap<ExprRef, bool> = w.terminals.iter().map(|t| (*t, r2::eval(&w.ctx, &env, *t).map(|v| v.bv().is_true()).unwrap_or(false))).collect();
                        let want = r2::eval(&w.ctx, &env, e).map(|v| v.bv().is_true()).unwrap_or(false);
                        sh.count("consistent_valuations_checked", 1);
                        if w.gc.verif_eval(g, &sigma) != want {
                            fail(sh, "expr_to_guard|differs-from-evaluation".into(), format!("guard of {} is {} but the expression evaluates to {want} under {}", r2::render(&w.ctx, e), !want, super::common::show_env(&w.ctx, &env)));
                            return;
                        }
                    }
                    continue;
                }
            }
            if let Some(t) = pool.last() {
                if t.vs.len() > 1 {
                    multi_entry = true;
                }
                let after = log.last().map(|l| l.split('(').next().unwrap_or("").to_string()).unwrap_or_default();
                if let Err((sig, d)) = self.check(sh, &w, t, &after, &log) {
                    fail(sh, sig, d);
                    return;
                }
            }
            if pool.len() > 6 {
                pool.remove(0);
            }
        }
        if multi_entry {
            sh.distinct(util::hash_str(&log.join(";")));
        }
        if sh.want_sample() && multi_entry {
            sh.sample(json!({"terminals": w.terminals.iter().map(|t| r2::render(&w.ctx, *t)).collect::<Vec<_>>(), "history": log}));
        }
    }
    fn finalize(&self, m: &mut Merged, tier: Tier) {
        for op in ["new", "apply_bin_op", "apply_ite", "coalesce", "import_into_guard", "expr_to_guard"] {
            m.floor(&format!("operations of kind {op}"), m.h("ops", op), tier.pick(20_000, 600_000));
        }
        m.floor("coalesce calls that merged entries", m.c("coalesce_merged_entries"), tier.pick(1_000, 30_000));
        m.extra.insert("exhaustive_over_terminal_valuations".into(), json!(true));
    }
}

//! C02 BMC returns the exact verdict up to the bound

use super::mcrun::*;
use crate::refsem::expr_eval as r2;
use crate::runner::*;
use crate::util::{self, Rng};
use crate::wl::sys::{SysCfg, describe, gen_system};
use patronus::expr::Context;
use patronus::system::TransitionSystem;
use patronus::system::transform::simplify_expressions;
use serde_json::json;

pub struct C02;

pub fn mc_sys_cfg(rng: &mut Rng) -> SysCfg {
    let mut cfg = SysCfg::default();
    cfg.init_reads_inputs = rng.chance(1, 4);
    cfg.nextless_states = false;
    cfg.array_inputs = false;
    cfg.max_state_bits = 8;
    cfg.max_input_bits = 4;
    cfg.max_bv_width = 3;
    cfg.max_depth = 2;
    cfg.arrays = rng.chance(1, 3);
    cfg.divrem = rng.chance(1, 2);
    cfg
}

/// classify why a run gave no verdict, from the monitor's log (root cause first)
pub fn no_verdict_cause(run: &McRun) -> String {
    let events = read_log(&run.log);
    if let Some((cmd, reason)) = first_rejection(&events) {
        let mut kind = reason.split(':').next().unwrap_or("").to_string();
        if kind == "persona" {
            kind = format!("persona-{}", reason.split(": ").nth(1).unwrap_or("").split(' ').take(2).collect::<Vec<_>>().join("-"));
        }
        let head = cmd.trim_start_matches('(').split(' ').next().unwrap_or("").to_string();
        return format!("solver-rejected|{head}|{kind}");
    }
    match &run.verdict {
        Verdict::Panic(p) => format!("panic|{}", p.loc()),
        Verdict::Err(e) => format!("error|{}", util::trunc(e.split('\n').next().unwrap_or(""), 60)),
        _ => "other".into(),
    }
}

impl C02 {
    #[allow(clippy::too_many_arguments)]
    fn one_config(&self, sh: &mut Shard, ctx: &mut Context, sys: &TransitionSystem, label: &str, persona: &str, individually: bool, simplified: bool, k: u64, reach: &crate::refsem::reach::Reach, seed: u64) -> Option<&'static str> {
        let expect_fail = reach.bad_within(k as usize);
        // bmc deliberately aborts on unsatisfiable constraints when asked to check them
        let upto = reach.min_bad_depth.map(|d| d.min(k as usize)).unwrap_or(k as usize);
        let check_constraints = reach.constraints_satisfiable_upto(upto) && seed % 2 == 0;
        let cfg = McCfg { persona, individually, check_constraints, k_max: k, solver_seed: seed, diversify: 0, core_mode: "minimal" };
        let tag = format!("c02_{}", sh.cur.n);
        let run = run_bmc(ctx, sys, &cfg, &sh.workdir.clone(), &tag);
        sh.count("bmc_runs", 1);
        sh.hist("config", &format!("{persona}|{}|{}", if individually { "individually" } else { "jointly" }, if simplified { "simplified" } else { "as-is" }));
        let cfg_txt = format!("persona={persona} individually={individually} simplified={simplified} check_constraints={check_constraints} k={k} solver_seed={seed}");
        let got: &'static str = match &run.verdict {
            Verdict::Success => "success",
            Verdict::Fail(_) => "fail",
            other => {
                if budget_exceeded(other) {
                    backend_trouble(sh, other, &cfg_txt);
                    return None;
                }
                let cause = no_verdict_cause(&run);
                let script = std::fs::read_to_string(&run.replay).unwrap_or_default();
                sh.violation(
                    format!("C02|no-verdict|{cause}"),
                    format!("bmc returned {} instead of a verdict ({cfg_txt})\n{:?}\nreference reachability: bad within {k} steps = {expect_fail}\n{label}\n--- SMT script\n{}", other.name(), other, util::trunc(&script, 4000)),
                    json!({"system": label}),
                );
                return None;
            }
        };
        sh.hist("verdicts", got);
        let want = if expect_fail { "fail" } else { "success" };
        if got != want {
            let script = std::fs::read_to_string(&run.replay).unwrap_or_default();
            sh.violation(
                format!("C02|wrong-verdict|bmc-says-{got}"),
                format!("bmc says {got}, explicit-state reachability says {want} (min depth of a bad state: {:?}; k={k}) ({cfg_txt})\n{label}\n--- SMT script\n{}", reach.min_bad_depth, util::trunc(&script, 4000)),
                json!({"system": label}),
            );
            return None;
        }
        let _ = std::fs::remove_file(&run.replay);
        let _ = std::fs::remove_file(&run.log);
        Some(got)
    }
}

pub const MC_BIN: &str = "/verif/target/repo-tools/release/mc";

/// builds /repo's tools/mc from the current working tree (no verification cfg: it is the shipped tool)
pub fn build_mc() -> Result<(), String> {
    let out = std::process::Command::new("cargo")
        .args(["build", "--release", "--offline", "-p", "mc", "--manifest-path", "/repo/Cargo.toml", "--target-dir", "/verif/target/repo-tools"])
        .env("CARGO_NET_OFFLINE", "true")
        .env_remove("RUSTFLAGS")
        .current_dir("/repo")
        .output()
        .map_err(|e| e.to_string())?;
    if !out.status.success() {
        return Err(format!("building tools/mc failed: {}", util::trunc(&String::from_utf8_lossy(&out.stderr), 600)));
    }
    Ok(())
}

impl C02 {
    /// the shipped command line tool on a written btor2 file (incl. stateless systems)
    fn cli_case(&self, sh: &mut Shard, ctx: &mut Context, rng: &mut Rng) {
        let mut cfg = mc_sys_cfg(rng);
        cfg.allow_stateless = true;
        cfg.arrays = false;
        let gs = gen_system(rng, ctx, &cfg, "");
        let sys = gs.sys;
        let label = describe(ctx, &sys);
        let Ok(reach) = reach_for(ctx, &sys, 8, false) else { return };
        let k: u64 = if sys.states.is_empty() { 0 } else { rng.range(1, 5) };
        // the tool always checks the constraints and aborts by design when they are unsatisfiable
        let upto = reach.min_bad_depth.map(|d| d.min(k as usize)).unwrap_or(k as usize);
        if !reach.constraints_satisfiable_upto(upto) {
            sh.count("cli_skipped_unsat_constraints", 1);
            return;
        }
        let mut buf = Vec::new();
        if patronus::btor2::serialize(ctx, &mut buf, &sys).is_err() {
            return;
        }
        let file = sh.workdir.join(format!("cli_{}.btor2", sh.cur.n));
        if std::fs::write(&file, &buf).is_err() {
            return;
        }
        ensure_z3_server(&sh.workdir.clone());
        let persona = *rng.pick(&["bitwuzla", "yices2", "z3", "cvc5"]);
        let log = sh.workdir.join(format!("cli_{}.log", sh.cur.n));
        set_env("REFSOLVER_LOG", log.to_str().unwrap());
        let mut cmd = std::process::Command::new(MC_BIN);
        cmd.arg("--solver").arg(persona).arg("--engine").arg("bmc").arg("--kmax").arg(k.max(1).to_string());
        if rng.flip() {
            cmd.arg("--skip-simplify");
        }
        cmd.arg(&file).current_dir(&sh.workdir);
        let out = match cmd.output() {
            Ok(o) => o,
            Err(e) => {
                sh.inconclusive(format!("cannot run {MC_BIN}: {e}"));
                return;
            }
        };
        sh.count("cli_runs", 1);
        sh.hist("cli_systems", if sys.states.is_empty() { "stateless" } else { "with-states" });
        let stdout = String::from_utf8_lossy(&out.stdout).to_string();
        let stderr = String::from_utf8_lossy(&out.stderr).to_string();
        // stateless systems are checked for a single cycle (k = 0)
        let expect_fail = reach.bad_within(if sys.states.is_empty() { 0 } else { k.max(1) as usize });
        let first = stdout.lines().find(|l| *l == "sat" || *l == "unsat" || *l == "unknown").unwrap_or("");
        let got = match (out.status.code(), first) {
            (Some(0), "unsat") => "success",
            (Some(0), "sat") => "fail",
            _ => "none",
        };
        let want = if expect_fail { "fail" } else { "success" };
        if got == "none" {
            let events = read_log(&log);
            if first_rejection(&events).map(|r| r.1.starts_with("persona")).unwrap_or(false) {
                return; // reported by the library-level runs (known finding signature there)
            }
            let loc = stderr.lines().find(|l| l.contains("panicked at")).map(|l| l.split("panicked at ").nth(1).unwrap_or("").split(':').take(2).collect::<Vec<_>>().join(":")).unwrap_or_else(|| "no-panic".into());
            sh.violation(
                format!("C02|cli|no-verdict|{}|{}", if sys.states.is_empty() { "stateless" } else { "with-states" }, util::short_path(&loc)),
                format!("mc --solver {persona} --engine bmc --kmax {} exited with {:?} and no verdict\nstdout: {}\nstderr: {}\nexpected: {want}\n{label}--- btor2\n{}", k.max(1), out.status.code(), util::trunc(&stdout, 400), util::trunc(&stderr, 1200), String::from_utf8_lossy(&buf)),
                json!({}),
            );
            return;
        }
        if got != want {
            sh.violation(format!("C02|cli|wrong-verdict|mc-says-{got}"), format!("mc says {got}, reference reachability says {want} (k={k})\n{label}--- btor2\n{}", String::from_utf8_lossy(&buf)), json!({}));
            return;
        }
        sh.hist("verdicts", got);
        let _ = std::fs::remove_file(&file);
        let _ = std::fs::remove_file(&log);
    }
}


/// constrained random simulation in the reference simulator R3: the smallest step (<= k) at which some bad state
/// held on a path whose constraints held at every step so far. One-sided: `None` says nothing.
/// Returns (first bad step, paths completed or ended in a bad state, steps simulated).
pub fn sim_first_bad(ctx: &Context, sys: &TransitionSystem, rng: &mut Rng, k: usize, runs: usize, node_budget: u64) -> (Option<usize>, u64, u64) {
    use crate::refsem::bv::Val;
    use crate::refsem::sim::RefSim;
    use crate::wl::expr::random_env;
    let mut all_syms: Vec<patronus::expr::ExprRef> = sys.states.iter().map(|s| s.symbol).collect();
    all_syms.extend(sys.inputs.iter().copied());
    let mut roots: Vec<patronus::expr::ExprRef> = sys.constraints.clone();
    roots.extend(sys.bad_states.iter().copied());
    let nodes = r2::post_order(ctx, &crate::wl::sys::all_roots(sys)).len() as u64;
    let nc = sys.constraints.len();
    let truth = |v: &Val| matches!(v, Val::B(b) if b.is_true());
    let (mut best, mut paths, mut steps, mut spent): (Option<usize>, u64, u64, u64) = (None, 0, 0, 0);
    for _ in 0..runs {
        let mut sim = RefSim::new(ctx, sys);
        let upto = best.map(|b| b.saturating_sub(1)).unwrap_or(k);
        if best == Some(0) {
            break;
        }
        let mut step = 0usize;
        'path: loop {
            let mut found = false;
            for _try in 0..12 {
                if spent > node_budget {
                    return (best, paths, steps);
                }
                spent += nodes;
                if step == 0 {
                    let env = random_env(rng, ctx, &all_syms);
                    if sim.init(|s| env[&s].clone()).is_err() {
                        break 'path;
                    }
                } else {
                    let env = random_env(rng, ctx, &sys.inputs);
                    for i in &sys.inputs {
                        sim.set(*i, env[i].clone());
                    }
                }
                let Ok(vals) = sim.get_many(&roots) else { break 'path };
                if vals[..nc].iter().all(truth) {
                    found = true;
                    if vals[nc..].iter().any(truth) {
                        best = Some(step);
                        paths += 1;
                        break 'path;
                    }
                    break;
                }
            }
            if !found {
                break 'path;
            }
            steps += 1;
            if step >= upto {
                paths += 1;
                break 'path;
            }
            spent += nodes;
            if sim.step().is_err() {
                break 'path;
            }
            step += 1;
        }
    }
    (best, paths, steps)
}

impl C02 {
    /// the btor2 designs shipped with the repository: the library (two configurations) and the shipped tool must
    /// agree on the verdict *and* on the depth of the first failure (it is determined by the system), and must not
    /// contradict a bad state that constrained random simulation in the reference simulator actually reached
    fn corpus_case(&self, sh: &mut Shard, rng: &mut Rng, n: usize) {
        let files = super::c11::corpus_files();
        let Some(path) = files.get(n) else { return };
        let Ok(text) = std::fs::read_to_string(path) else { return };
        let name = util::short_path(&path.to_string_lossy());
        if text.len() > sh.tier.pick(6_000, 100_000) || !text.lines().any(|l| l.split_whitespace().nth(1) == Some("bad")) {
            sh.count("corpus_files_without_bad_state_or_too_large", 1);
            return;
        }
        let mut ctx = Context::default();
        let Ok(Some(sys)) = util::catch(|| patronus::btor2::parse_str(&mut ctx, &text, Some("corpus"))) else {
            sh.count("corpus_files_not_parsed", 1);
            return;
        };
        sh.count("corpus_systems", 1);
        let k = sh.tier.pick(12u64, 30u64);
        let (sim_bad, paths, steps) = sim_first_bad(&ctx, &sys, rng, k as usize, sh.tier.pick(40, 400), sh.tier.pick(3_000_000, 60_000_000));
        sh.count("corpus_simulated_paths", paths);
        sh.count("corpus_simulated_steps", steps);
        if sim_bad.is_some() {
            sh.count("corpus_systems_where_simulation_reached_a_bad_state", 1);
        }
        let mut simp = sys.clone();
        if let Err(p) = util::catch(|| simplify_expressions(&mut ctx, &mut simp)) {
            sh.violation(format!("C02|corpus|simplify-panic|{}", p.loc()), format!("{} ({name})", p.msg), json!({"file": name}));
            return;
        }
        set_env("REFSOLVER_RLIMIT", sh.tier.pick("4000000", "30000000"));
        // (configuration, verdict, depth of the failure)
        let mut seen: Vec<(String, &'static str, Option<usize>)> = vec![];
        let p1 = *rng.pick(&PERSONAS);
        let p2 = *rng.pick(&PERSONAS);
        for (persona, individually, simplified) in [(p1, false, false), (p2, true, true)] {
            let cfgm = McCfg { persona, individually, check_constraints: false, k_max: k, solver_seed: rng.next() % 100_000, diversify: 0, core_mode: "minimal" };
            let s = if simplified { &simp } else { &sys };
            let run = run_bmc(&mut ctx, s, &cfgm, &sh.workdir.clone(), &format!("c02c_{}", sh.cur.n));
            sh.count("corpus_bmc_runs", 1);
            let cfg_txt = format!("library persona={persona} individually={individually} simplified={simplified} k={k}");
            match &run.verdict {
                Verdict::Success => seen.push((cfg_txt, "success", None)),
                Verdict::Fail(w) => seen.push((cfg_txt, "fail", Some(w.inputs.len().saturating_sub(1)))),
                other => {
                    if budget_exceeded(other) {
                        sh.count("corpus_runs_over_the_backend_effort_bound", 1);
                    } else if first_rejection(&read_log(&run.log)).map(|r| r.1.starts_with("persona")).unwrap_or(false) {
                        sh.count("corpus_runs_without_verdict_known_persona_limit", 1);
                    } else {
                        let cause = no_verdict_cause(&run);
                        sh.violation(format!("C02|corpus|no-verdict|{cause}"), format!("bmc returned {} instead of a verdict on {name} ({cfg_txt})\n{:?}", other.name(), other), json!({"file": name}));
                        unset_env("REFSOLVER_RLIMIT");
                        return;
                    }
                }
            }
            let _ = std::fs::remove_file(&run.replay);
            let _ = std::fs::remove_file(&run.log);
        }
        // the shipped tool on the file itself (reads, simplifies unless told not to, checks the constraints)
        {
            let persona = *rng.pick(&["bitwuzla", "z3", "cvc5"]);
            let skip = rng.flip();
            let log = sh.workdir.join(format!("c02cli_{}.log", sh.cur.n));
            let _ = std::fs::remove_file(&log);
            ensure_z3_server(&sh.workdir.clone());
            set_env("REFSOLVER_LOG", log.to_str().unwrap());
            set_env("REFSOLVER_SEED", "1");
            set_env("REFSOLVER_DIVERSIFY", "0");
            let mut cmd = std::process::Command::new(MC_BIN);
            cmd.arg("--solver").arg(persona).arg("--engine").arg("bmc").arg("--kmax").arg(k.to_string());
            if skip {
                cmd.arg("--skip-simplify");
            }
            cmd.arg(path).current_dir(&sh.workdir);
            if let Ok(out) = cmd.output() {
                sh.count("corpus_cli_runs", 1);
                let stdout = String::from_utf8_lossy(&out.stdout).to_string();
                let stderr = String::from_utf8_lossy(&out.stderr).to_string();
                let cfg_txt = format!("mc --solver {persona} --engine bmc --kmax {k}{}", if skip { " --skip-simplify" } else { "" });
                let first = stdout.lines().find(|l| *l == "sat" || *l == "unsat" || *l == "unknown").unwrap_or("");
                match (out.status.code(), first) {
                    (Some(0), "unsat") => seen.push((cfg_txt, "success", None)),
                    (Some(0), "sat") => {
                        let depth = stdout.lines().filter_map(|l| l.strip_prefix('@').and_then(|x| x.trim().parse::<usize>().ok())).max().unwrap_or(0);
                        seen.push((cfg_txt, "fail", Some(depth)));
                    }
                    _ => {
                        if stderr.contains("refsolver-budget") || stderr.contains("refsolver-internal") || first == "unknown" {
                            sh.count("corpus_runs_over_the_backend_effort_bound", 1);
                        } else if stderr.contains("Found unsatisfiable constraints") {
                            // the tool always checks the constraints and aborts by design when they cannot hold
                            sh.count("corpus_cli_runs_aborting_on_unsatisfiable_constraints", 1);
                        } else {
                            let loc = stderr.lines().find(|l| l.contains("panicked at")).map(|l| l.split("panicked at ").nth(1).unwrap_or("").split(':').take(2).collect::<Vec<_>>().join(":")).unwrap_or_else(|| "no-panic".into());
                            sh.violation(format!("C02|corpus|cli|no-verdict|{}", util::short_path(&loc)), format!("{cfg_txt} {name} exited with {:?} and no verdict\nstdout: {}\nstderr: {}", out.status.code(), util::trunc(&stdout, 400), util::trunc(&stderr, 1200)), json!({"file": name}));
                            unset_env("REFSOLVER_RLIMIT");
                            return;
                        }
                    }
                }
            }
            let _ = std::fs::remove_file(&log);
        }
        unset_env("REFSOLVER_RLIMIT");
        for (cfg_txt, v, d) in &seen {
            sh.hist("corpus_verdicts", v);
            if let Some(sd) = sim_bad {
                if *v == "success" || d.map(|d| d > sd).unwrap_or(false) {
                    sh.violation(format!("C02|corpus|contradicts-simulation|bmc-says-{v}"), format!("{name}: the reference simulator reached a bad state at step {sd} on a path that satisfies the constraints, but {cfg_txt} says {v} (depth {d:?}) at bound {k}"), json!({"file": name}));
                    return;
                }
            }
        }
        if let Some((c0, v0, d0)) = seen.first() {
            for (c, v, d) in &seen[1..] {
                if v != v0 || d != d0 {
                    sh.violation("C02|corpus|configurations-disagree", format!("{name} at bound {k}: [{c0}] says {v0} (first failure at step {d0:?}), [{c}] says {v} (step {d:?})"), json!({"file": name}));
                    return;
                }
            }
            if seen.len() >= 2 {
                sh.count("corpus_systems_with_agreeing_configurations", 1);
                sh.distinct(util::hash_str(&name));
            }
            if let Some(d) = d0 {
                sh.hist("corpus_first_failure_depth", &format!("{d:02}"));
            }
        }
    }
}

impl Check for C02 {
    fn id(&self) -> &'static str {
        "C02"
    }
    fn work(&self, tier: Tier) -> Vec<WorkItem> {
        vec![WorkItem { mode: "directed", count: 2 }, WorkItem { mode: "corpus", count: super::c11::corpus_files().len() as u64 }, WorkItem { mode: "cli", count: tier.pick(64, 4_000) }, WorkItem { mode: "gen", count: std::env::var("VERIF_N").ok().and_then(|s| s.parse().ok()).unwrap_or(tier.pick(320, 30_000)) }]
    }
    fn evaluations_counter(&self) -> &'static str {
        "bmc_runs"
    }
    fn rule(&self) -> String {
        "G2 systems (<= 8 state bits incl. array states, <= 4 input bits, free and initialised states, init chains over earlier states, const states, 0-2 constraints, 1-3 bads incl. constant and duplicate ones (one system in five has 15-43 bad states, the generated ones last), sub-terms shared between init/next/bad/constraint roots) x bound k in {1,2,3,5, d-1, d, d+1} (d = reference depth of the first bad state) x 4 solver personas (refsolver under the names bitwuzla / yices-smt2 / z3 / cvc5: check-sat-assuming vs push/pop emulation, const-array support) x {bads jointly, individually} x {as is, after simplify_expressions}; patronus::mc::bmc talks the real text protocol to the strict reference solver; the verdict is compared with explicit-state reachability R4 and across configurations. mode corpus: every shipped btor2 design with a bad state (quick: files <= 6 kB, bound 12; thorough: <= 100 kB, bound 30) is checked by the library in two configurations (random profile, jointly as-is / individually simplified) and by the shipped tools/mc binary on the file itself, under a deterministic backend effort bound; all must agree on the verdict and on the step of the first failure, and none may contradict a bad state that constrained random simulation in the reference simulator R3 reached (one-sided independent oracle). distinct_nontrivial = distinct generated systems with at least 2 reachable states + shipped designs judged.".into()
    }
    fn assumptions(&self) -> Vec<String> {
        vec![
            "init expressions read earlier states and step-0 inputs only; a state without a next function is unconstrained from step 1 on (btor2 reading, as in the encoding and in the reader's demotion of init-less next-less states to inputs); such states occur in a third of the generated systems and in a directed case".into(),
            "satisfiability inside the reference solver is decided by z3 4.8.12; the verdict oracle is the independent explicit-state search".into(),
            "check_constraints=true only where the reference search finds the constraints satisfiable (bmc aborts by design otherwise)".into(),
        ]
    }
    fn prepare(&self, _tier: Tier) -> Result<(), String> {
        install_solvers()?;
        build_mc()
    }
    fn shard_begin(&self, _sh: &mut Shard) {
        use_refsolver_path();
    }
    fn shard_end(&self, _sh: &mut Shard) {
        stop_z3_server();
    }
    fn shard_timeout_s(&self, tier: Tier) -> u64 {
        tier.pick(1800, 6 * 3600)
    }
    fn nshards(&self, _tier: Tier) -> u64 {
        // process start-up, not CPU, limits the throughput of the solver-backed checks in this sandbox
        8
    }
    fn run_case(&self, sh: &mut Shard, case: &CaseId) {
        let mut rng = Rng::new(sh.case_seed());
        let mut ctx = Context::default();
        if case.mode == "directed" && case.n == 1 {
            // a state with an init value but without a next function is unconstrained from step 1 on (btor2 reading,
            // which is also what the reader assumes when it turns init-less, next-less states into inputs)
            let text = "1 sort bitvec 2\n2 state 1 s\n3 zero 1\n4 init 1 2 3\n5 sort bitvec 1\n6 ones 1\n7 eq 5 2 6\n8 bad 7\n9 state 1 t\n10 init 1 9 3\n11 next 1 9 2\n12 eq 5 9 6\n13 bad 12\n";
            let Some(sys) = patronus::btor2::parse_str(&mut ctx, text, Some("directed")) else { return };
            let label = describe(&ctx, &sys);
            let Ok(reach) = reach_for(&ctx, &sys, 4, false) else { return };
            sh.count("directed_nextless_runs", 1);
            for persona in PERSONAS {
                for k in [0u64, 1, 2, 3] {
                    if self.one_config(sh, &mut ctx, &sys, &label, persona, k % 2 == 1, false, k, &reach, 1).is_none() {
                        return;
                    }
                }
            }
            return;
        }
        if case.mode == "directed" {
            // witness of the known finding: a constant array is sent to a solver profile without const-array support
            let text = "1 sort bitvec 1\n2 sort bitvec 2\n3 sort array 1 2\n4 state 3 mem\n5 zero 2\n6 init 3 4 5\n7 input 1 a\n8 input 2 d\n9 write 3 4 7 8\n10 next 3 4 9\n11 read 2 4 7\n12 ones 2\n13 eq 1 11 12\n14 bad 13\n";
            let Some(sys) = patronus::btor2::parse_str(&mut ctx, text, Some("directed")) else { return };
            let label = describe(&ctx, &sys);
            let Ok(reach) = reach_for(&ctx, &sys, 4, false) else { return };
            for persona in PERSONAS {
                if self.one_config(sh, &mut ctx, &sys, &label, persona, false, false, 3, &reach, 1).is_none() && persona != "yices-smt2" {
                    return;
                }
            }
            return;
        }
        if case.mode == "cli" {
            self.cli_case(sh, &mut ctx, &mut rng);
            return;
        }
        if case.mode == "corpus" {
            self.corpus_case(sh, &mut rng, case.n as usize);
            return;
        }
        let mut cfg = mc_sys_cfg(&mut rng);
        // states without a next function (btor2 reading: unconstrained from step 1 on; see R4) in a quarter of the systems
        cfg.nextless_states = rng.chance(1, 3);
        cfg.nextless_one_in = 2;
        // every system costs 20 solver sessions: prefer feature-rich ones (two thirds of the cases)
        let gs = if rng.chance(2, 3) { crate::wl::sys::gen_rich_system(&mut rng, &mut ctx, &cfg, 4) } else { gen_system(&mut rng, &mut ctx, &cfg, "") };
        let mut sys = gs.sys;
        if rng.chance(1, 5) {
            // designs with dozens of properties: the generated bad states come last, behind 14-40 that never hold
            // or that repeat the first one
            let real = std::mem::take(&mut sys.bad_states);
            let n = rng.range(14, 40);
            for _ in 0..n {
                let filler = if rng.chance(1, 5) { real[0] } else { ctx.get_false() };
                sys.bad_states.push(filler);
            }
            sys.bad_states.extend(real);
            sh.count("systems_with_more_than_16_bad_states", 1);
        }
        if sys.states.iter().any(|s| s.next.is_none()) {
            sh.count("systems_with_a_state_without_next", 1);
        }
        let label = describe(&ctx, &sys);
        let reach = match reach_for(&ctx, &sys, 8, false) {
            Ok(r) => r,
            Err(e) => {
                sh.inconclusive(format!("reference reachability failed: {e}"));
                return;
            }
        };
        if reach.all_reached.len() >= 2 {
            sh.distinct(util::hash_str(&label));
        }
        sh.hist("first_bad_depth", &reach.min_bad_depth.map(|d| d.to_string()).unwrap_or("none".into()));
        // bounds around the interesting depth
        let mut ks: Vec<u64> = vec![1, 2, 3, 5];
        if let Some(d) = reach.min_bad_depth {
            for x in [d as i64 - 1, d as i64, d as i64 + 1] {
                if x >= 1 {
                    ks.push(x as u64);
                }
            }
        }
        ks.sort();
        ks.dedup();
        ks.retain(|k| *k <= 7);
        let mut simp = sys.clone();
        if let Err(p) = util::catch(|| simplify_expressions(&mut ctx, &mut simp)) {
            sh.violation(format!("C02|simplify-panic|{}", p.loc()), format!("{}\n{label}", p.msg), json!({}));
            return;
        }
        let simp_label = format!("{label}--- after simplify_expressions\n{}", describe(&ctx, &simp));
        // every system sees all personas and modes; the bound rotates
        let mut first: Option<(String, &'static str, u64)> = None;
        let mut n = 0u64;
        for persona in PERSONAS {
            for individually in [false, true] {
                for simplified in [false, true] {
                    let k = ks[(n as usize + sh.cur.n as usize) % ks.len()];
                    n += 1;
                    let s = if simplified { &simp } else { &sys };
                    let l = if simplified { &simp_label } else { &label };
                    let Some(v) = self.one_config(sh, &mut ctx, s, l, persona, individually, simplified, k, &reach, rng.next() % 1000) else { return };
                    let _ = &mut first;
                    let _ = v;
                }
            }
        }
        // one bound through the four profiles (alternating modes): verdicts must coincide (and equal the oracle, checked above)
        let k = *rng.pick(&ks);
        for (pi, persona) in PERSONAS.into_iter().enumerate() {
            for individually in [(pi + sh.cur.n as usize) % 2 == 1] {
                let Some(v) = self.one_config(sh, &mut ctx, &sys, &label, persona, individually, false, k, &reach, rng.next() % 1000) else { return };
                match &first {
                    None => first = Some((format!("{persona}/{individually}"), v, k)),
                    Some((c, fv, _)) => {
                        if *fv != v {
                            sh.violation("C02|configurations-disagree", format!("k={k}: {c} says {fv}, {persona}/{individually} says {v}\n{label}"), json!({}));
                            return;
                        }
                    }
                }
            }
        }
        if sh.want_sample() {
            sh.sample(json!({"system": label, "first_bad_depth": reach.min_bad_depth, "reachable_states": reach.all_reached.len(), "bounds": ks}));
        }
        let _ = r2::render;
    }
    fn finalize(&self, m: &mut Merged, tier: Tier) {
        m.floor("bmc runs", m.c("bmc_runs"), tier.pick(4_000, 500_000));
        m.floor("runs with verdict fail", m.h("verdicts", "fail"), tier.pick(800, 100_000));
        m.floor("runs with verdict success", m.h("verdicts", "success"), tier.pick(800, 100_000));
        m.floor("configurations exercised", m.hist_len("config") as u64, 16);
        m.floor("shipped designs on which library and tool configurations agreed (verdict and failure depth)", m.c("corpus_systems_with_agreeing_configurations"), tier.pick(40, 60));
        m.floor("shipped designs where reference simulation itself reached a bad state", m.c("corpus_systems_where_simulation_reached_a_bad_state"), tier.pick(5, 8));
    }
}

//! C06 Concrete evaluation follows SMT-LIB semantics

use super::common::*;
use crate::wl::expr::{ExprGen, GenCfg, random_env, width_class};
use crate::refsem::bv::Val;
use crate::refsem::expr_eval::{self as r2, Env, baa_from_bv, bv_from_baa};
use crate::runner::*;
use crate::util::{self, Rng};
use baa::{BitVecOps, BitVecValue, Value};
use patronus::expr::{Context, Expr, ExprRef, Type, TypeCheck, eval_expr};
use rustc_hash::{FxHashMap, FxHashSet};
use serde_json::json;

pub struct C06;

/// coarse width class used in signatures (word boundaries of the value representation)
pub fn sig_width_class(w: u32) -> &'static str {
    match w {
        0..=64 => "<=64",
        65..=128 => "65-128",
        _ => ">128",
    }
}

fn node_width(ctx: &Context, e: ExprRef) -> u32 {
    // width class of the widest operand (or of the node itself for leaves)
    let mut w = match ctx[e].get_type(ctx) {
        Type::BV(w) => w,
        Type::Array(a) => a.data_width,
    };
    for c in r2::children(ctx, e) {
        if let Type::BV(cw) = ctx[c].get_type(ctx) {
            w = w.max(cw);
        }
    }
    w
}

/// compare a patronus value with the reference value; Some((kind, text)) on difference
pub fn value_diff(ctx: &mut Context, got: &Value, want: &Val) -> Option<(&'static str, String)> {
    match (got, want) {
        (Value::BitVec(g), Val::B(w)) => {
            if g.width() != w.w {
                return Some(("value", format!("width {} expected {}", g.width(), w.w)));
            }
            let gn = bv_from_baa(g);
            if gn != *w {
                return Some(("value", format!("got {} expected {}", gn.show(), w.show())));
            }
            // numerically right: must also be indistinguishable from the canonical representation
            let canon = baa_from_bv(w);
            if g.words() != canon.words() || !r2::is_canonical(g) {
                return Some(("noncanonical", format!("value {} has words {:x?}, canonical words {:x?}", w.show(), g.words(), canon.words())));
            }
            if !g.is_equal(&canon) {
                return Some(("noncanonical", format!("value {} does not compare equal to its canonical form", w.show())));
            }
            if ctx.bv_lit(g) != ctx.bv_lit(&canon) {
                return Some(("noncanonical", format!("value {} interns to a different literal than its canonical form", w.show())));
            }
            None
        }
        (Value::Array(g), Val::A(w)) => array_diff(g, w, &[]).map(|d| (if d.contains("non-canonical") { "noncanonical" } else { "value" }, d)),
        _ => Some(("value", "bit-vector/array kind mismatch".to_string())),
    }
}

enum Store<'a> {
    Svs { dense: bool },
    Slice,
    ArraySlice,
    Map,
    #[allow(dead_code)]
    Unused(&'a ()),
}

/// deterministic reordering: rotate by `k`, reverse for odd `k`
fn scramble<T>(v: &mut [T], k: usize) {
    if v.len() > 1 {
        let n = v.len();
        v.rotate_left(k % n);
        if k % 2 == 1 {
            v.reverse();
        }
    }
}

fn eval_with(ctx: &Context, env: &Env, st: &Store, e: ExprRef) -> Result<Value, util::PanicInfo> {
    match st {
        Store::Svs { dense } => {
            let s = store_from_env(env, *dense);
            util::catch(|| eval_expr(ctx, &s, e))
        }
        Store::Slice => {
            // the pairs come in no particular order (nothing asks callers for one): a deterministic scramble
            let mut v: Vec<(ExprRef, BitVecValue)> = env.iter().map(|(k, x)| (*k, baa_from_bv(x.bv()))).collect();
            v.sort_by_key(|x| x.0);
            scramble(&mut v, usize::from(e));
            util::catch(|| eval_expr(ctx, v.as_slice(), e))
        }
        Store::ArraySlice => {
            let mut v: Vec<(ExprRef, baa::ArrayValue)> = env.iter().map(|(k, x)| (*k, super::common::baa_array_from(x.arr(), usize::from(*k) % 2 == 1))).collect();
            v.sort_by_key(|x| x.0);
            scramble(&mut v, usize::from(e));
            util::catch(|| eval_expr(ctx, v.as_slice(), e))
        }
        Store::Map => {
            let m: FxHashMap<ExprRef, BitVecValue> = env.iter().map(|(k, x)| (*k, baa_from_bv(x.bv()))).collect();
            util::catch(|| eval_expr(ctx, &m, e))
        }
        Store::Unused(_) => unreachable!(),
    }
}

/// find the lowest node whose own evaluation disagrees while all its children agree;
/// returns the node, a description and a discriminator describing the operand situation
fn localise(ctx: &mut Context, env: &Env, root: ExprRef) -> Option<(ExprRef, String, String, &'static str)> {
    let order = r2::post_order(ctx, &[root]);
    let mut memo = Env::default();
    r2::eval_memo(ctx, env, &mut memo, root).ok()?;
    for n in order {
        // only nodes the reference evaluator computed itself (not supplied, not below a supplied node)
        if ctx[n].is_symbol() || env.contains_key(&n) || !memo.contains_key(&n) {
            continue;
        }
        let want = memo[&n].clone();
        let kids = r2::children(ctx, n);
        if kids.iter().any(|c| !memo.contains_key(c)) {
            continue;
        }
        // give patronus the reference values of the children so that only this node is computed
        let mut env2 = env.clone();
        for c in kids.iter() {
            env2.insert(*c, memo[c].clone());
        }
        let s = store_from_env(&env2, false);
        let failure = match util::catch(|| eval_expr(ctx, &s, n)) {
            Err(p) => Some(("panic", format!("panic at {}: {}", p.loc(), util::trunc(&p.msg, 200)))),
            Ok(got) => value_diff(ctx, &got, &want),
        };
        if let Some((k, d)) = failure {
            let disc = discriminator(ctx, n, &kids, &memo);
            return Some((n, d, disc, k));
        }
    }
    None
}

/// operand situation of a failing node, so that known-finding signatures stay narrow
fn discriminator(ctx: &Context, n: ExprRef, kids: &[ExprRef], memo: &Env) -> String {
    match &ctx[n] {
        Expr::BVGreaterEqual(..) | Expr::BVGreater(..) | Expr::BVGreaterSigned(..) | Expr::BVGreaterEqualSigned(..) | Expr::BVEqual(..) => {
            if memo[&kids[0]] == memo[&kids[1]] { "operands-equal".into() } else { "operands-differ".into() }
        }
        Expr::BVShiftLeft(..) | Expr::BVShiftRight(..) | Expr::BVArithmeticShiftRight(..) => {
            let w = memo[&kids[0]].bv().w as u64;
            match memo[&kids[1]].bv().to_u64() {
                Some(a) if a < w && a >= 64 && a % 64 == 0 => "amount-multiple-of-64".into(),
                Some(a) if a < w => "amount-in-range".into(),
                _ => "amount-ge-width".into(),
            }
        }
        Expr::ArrayEqual(..) => {
            let (a, b) = (memo[&kids[0]].arr(), memo[&kids[1]].arr());
            if a.default != b.default && a.ext_eq(b) { "equal-with-different-defaults".into() } else { "other".into() }
        }
        _ => "-".into(),
    }
}

impl C06 {
    fn judge(&self, sh: &mut Shard, ctx: &mut Context, e: ExprRef, env: &Env, st: &Store, what: &str, want: &Val) {
        sh.count("evaluations", 1);
        let res = eval_with(ctx, env, st, e);
        let (kind, text) = match res {
            Err(p) => {
                if p.in_harness() {
                    sh.inconclusive(format!("harness panic {} {}", p.loc(), p.msg));
                    return;
                }
                ("panic", format!("panic at {}: {}", p.loc(), util::trunc(&p.msg, 200)))
            }
            Ok(got) => match value_diff(ctx, &got, want) {
                None => return,
                Some((k, d)) => (k, d),
            },
        };
        // localise to one operator; the signature describes the localised failure
        let loc_of = |t: &str| t.split(':').take(2).collect::<Vec<_>>().join(":").replace("panic at ", "");
        let (sig, node_txt) = match localise(ctx, env, e) {
            Some((n, d, disc, k)) => {
                let op = r2::op_name(&ctx[n]);
                let wc = sig_width_class(node_width(ctx, n));
                let sig = if k == "panic" { format!("C06|panic|op={op}|w={wc}|{}", loc_of(&d)) } else { format!("C06|{k}|op={op}|w={wc}|{disc}") };
                (sig, format!("first failing node: {} -> {}", r2::render(ctx, n), d))
            }
            None => {
                let sig = if kind == "panic" { format!("C06|panic|op=?|{what}|{}", loc_of(&text)) } else { format!("C06|{kind}|op=?|{what}") };
                (sig, "could not be localised to a single node".to_string())
            }
        };
        let detail = format!(
            "expr: {}\nenv: {}\nstore: {}\n{}\n{}",
            r2::render(ctx, e),
            show_env(ctx, env),
            what,
            text,
            node_txt
        );
        sh.violation(sig, detail, json!({"expr": r2::render(ctx, e)}));
    }
}

/// directed cases: witnesses of the known findings and of repaired defects (regressions)
fn directed(ctx: &mut Context, n: u64) -> Option<ExprRef> {
    use crate::refsem::bv::{Bv, pow2};
    let lit = |ctx: &mut Context, w: u32, v: num_bigint::BigUint| ctx.bv_lit(&baa_from_bv(&Bv::new(w, v)));
    Some(match n {
        0 => {
            let a = ctx.bv_symbol("a129", 129);
            let b = ctx.bv_symbol("b129", 129);
            ctx.mul(a, b)
        }
        1 => {
            let a = ctx.bv_symbol("a65", 65);
            let k = lit(ctx, 65, 64u32.into());
            ctx.shift_left(a, k)
        }
        2 => {
            let a = ctx.bv_symbol("a129", 129);
            let k = lit(ctx, 129, 128u32.into());
            ctx.shift_left(a, k)
        }
        3 | 4 => {
            let dw = if n == 3 { 8 } else { 70 };
            let zero = ctx.zero(dw);
            let five = lit(ctx, dw, 5u32.into());
            let i0 = ctx.zero(1);
            let i1 = ctx.one(1);
            let base = ctx.array_const(zero, 1);
            let s0 = ctx.array_store(base, i0, five);
            let s1 = ctx.array_store(s0, i1, five);
            let c5 = ctx.array_const(five, 1);
            ctx.equal(s1, c5)
        }
        5 | 6 | 7 => {
            // repaired: ugte on equal multi-word operands
            let w = [65, 100, 129][(n - 5) as usize];
            let a = ctx.bv_symbol("a", w);
            ctx.greater_or_equal(a, a)
        }
        8 => {
            let a = lit(ctx, 128, pow2(127));
            let b = ctx.bv_symbol("b128", 128);
            let x = ctx.greater_or_equal(a, b);
            let y = ctx.greater_or_equal(b, a);
            ctx.and(x, y)
        }
        _ => return None,
    })
}
const N_DIRECTED: u64 = 9;

impl Check for C06 {
    fn id(&self) -> &'static str {
        "C06"
    }
    fn work(&self, tier: Tier) -> Vec<WorkItem> {
        vec![WorkItem { mode: "directed", count: N_DIRECTED }, WorkItem { mode: "rand", count: tier.pick(400_000, 40_000_000) }]
    }
    fn evaluations_counter(&self) -> &'static str {
        "evaluations"
    }
    fn rule(&self) -> String {
        "G1 random rule-directed expression DAGs without div/rem (depth<=4, widths 1,2-8,31-33,63-65,127-129 and in between, arrays idx 1-5 / data 1-65), each evaluated with eval_expr under 6 corner-biased/correlated assignments through SymbolValueStore (sparse+dense arrays), slice-of-pairs (bit-vector pairs, and array pairs for expressions over array symbols only; in scrambled order - nothing requires the pairs to be sorted) and FxHashMap stores, plus one short-circuit variant (inner node given an arbitrary value, symbols only below it left unbound); judged against the big-integer reference evaluator incl. canonical-word, is_equal and interning checks. distinct_nontrivial = distinct rendered expressions with at least one operator node.".into()
    }
    fn assumptions(&self) -> Vec<String> {
        vec![
            "reference semantics R1/R2 (num-bigint) is the oracle; cross-checked against z3 in setup.sh --selftest".into(),
            "release profile (debug assertions off) is the verdict build".into(),
        ]
    }
    fn run_case(&self, sh: &mut Shard, case: &CaseId) {
        let mut rng = Rng::new(sh.case_seed());
        let mut ctx = Context::default();
        let mut cfg = GenCfg::default();
        cfg.divrem = false;
        let (e, fam) = if case.mode == "directed" {
            match directed(&mut ctx, case.n) {
                Some(e) => (e, "directed"),
                None => return,
            }
        } else {
            let mut g = ExprGen::new(&mut rng, cfg);
            g.top(&mut ctx)
        };
        let order = r2::post_order(&ctx, &[e]);
        let nops = order.iter().filter(|n| !ctx[**n].is_symbol() && !ctx[**n].is_bv_lit()).count();
        if nops > 0 {
            sh.distinct(util::hash_str(&r2::render(&ctx, e)));
        }
        sh.hist("family", fam);
        for n in &order {
            let k = format!("{}@{}", r2::op_name(&ctx[*n]), width_class(node_width(&ctx, *n)));
            sh.hist("op_x_width", &k);
        }
        let syms = r2::symbols_of(&ctx, &[e]);
        let bv_only = syms.iter().all(|s| matches!(ctx[*s], Expr::BVSymbol { .. }));
        let array_only = !syms.is_empty() && syms.iter().all(|s| matches!(ctx[*s], Expr::ArraySymbol { .. }));
        if sh.want_sample() {
            sh.sample(json!({"expr": util::trunc(&r2::render(&ctx, e), 300), "family": fam}));
        }
        for k in 0..6 {
            let env = random_env(&mut rng, &ctx, &syms);
            let want = match r2::eval(&ctx, &env, e) {
                Ok(v) => v,
                Err(err) => {
                    sh.inconclusive(format!("reference evaluator failed: {}", err.0));
                    return;
                }
            };
            self.judge(sh, &mut ctx, e, &env, &Store::Svs { dense: k % 2 == 1 }, "SymbolValueStore", &want);
            if bv_only && k < 2 {
                self.judge(sh, &mut ctx, e, &env, &Store::Slice, "slice", &want);
                self.judge(sh, &mut ctx, e, &env, &Store::Map, "FxHashMap", &want);
            }
            if array_only && k < 2 {
                sh.count("evaluations_through_a_slice_of_array_pairs", 1);
                self.judge(sh, &mut ctx, e, &env, &Store::ArraySlice, "array-slice", &want);
            }
            if k == 0 {
                // short circuit: give an inner node an arbitrary value, unbind symbols that only occur below it
                let inner: Vec<ExprRef> = order
                    .iter()
                    .copied()
                    .filter(|n| *n != e && !ctx[*n].is_symbol() && !ctx[*n].is_bv_lit())
                    .collect();
                if !inner.is_empty() {
                    let s = *rng.pick(&inner);
                    let v = match ctx[s].get_type(&ctx) {
                        Type::BV(w) => Val::B(crate::refsem::bv::Bv::new(w, crate::wl::expr::lit_shape(&mut rng, w))),
                        Type::Array(a) => Val::A(crate::wl::expr::random_array(&mut rng, a.index_width, a.data_width)),
                    };
                    // symbols still reachable without passing through s
                    let mut reach: FxHashSet<ExprRef> = Default::default();
                    let mut stack = vec![e];
                    let mut seen: FxHashSet<ExprRef> = Default::default();
                    while let Some(n) = stack.pop() {
                        if n == s || !seen.insert(n) {
                            continue;
                        }
                        if ctx[n].is_symbol() {
                            reach.insert(n);
                        }
                        stack.extend(r2::children(&ctx, n));
                    }
                    let mut env2: Env = env.iter().filter(|(k, _)| reach.contains(k)).map(|(k, v)| (*k, v.clone())).collect();
                    let dropped = env.len() - env2.len();
                    env2.insert(s, v);
                    if let Ok(want2) = r2::eval(&ctx, &env2, e) {
                        sh.count("short_circuit_cases", 1);
                        if dropped > 0 {
                            sh.count("short_circuit_with_unbound_symbols", 1);
                        }
                        self.judge(sh, &mut ctx, e, &env2, &Store::Svs { dense: false }, "short-circuit", &want2);
                    }
                }
            }
        }
    }
    fn finalize(&self, m: &mut Merged, tier: Tier) {
        let ops = m.hist_len("op_x_width") as u64;
        m.floor("distinct operator x width-class pairs evaluated", ops, tier.pick(150, 180));
        let sc = m.c("short_circuit_with_unbound_symbols");
        m.floor("short-circuit cases with unbound symbols below the supplied node", sc, tier.pick(20_000, 1_000_000));
    }
}

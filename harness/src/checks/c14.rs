//! C14 The SMT-LIB reader inverts the writer and reads model values

use super::c05::cmd_text;
use super::common::show_env;
use crate::refsem::bv::{ArrV, Bv, Val};
use crate::refsem::expr_eval::{self as r2, Env};
use crate::refsem::smt::{self, Evaluator, Model, Op, SVal, Scope, Sort, Term};
use crate::runner::*;
use crate::util::{self, Rng};
use crate::wl::expr::{ExprGen, GenCfg, judging_envs, lit_shape};
use patronus::expr::{Context, ExprRef, Type, TypeCheck};
use patronus::smt::{Logic, SmtCommand, parse_command, parse_expr, read_command};
use rustc_hash::FxHashMap;
use serde_json::json;

pub struct C14;

type St = FxHashMap<String, ExprRef>;

fn equivalent(sh: &mut Shard, ctx: &Context, rng: &mut Rng, a: ExprRef, b: ExprRef) -> Result<(), String> {
    if a == b {
        return Ok(());
    }
    if a.get_type(ctx) != b.get_type(ctx) {
        return Err(format!("type {} became {}", a.get_type(ctx), b.get_type(ctx)));
    }
    if let Err(m) = r2::deep_type_check(ctx, b) {
        return Err(format!("the expression read back is ill-typed: {m}"));
    }
    let syms = r2::symbols_of(ctx, &[a, b]);
    let (envs, _) = judging_envs(rng, ctx, &syms, 10, 8);
    for env in envs {
        sh.count("evaluations", 1);
        let (x, y) = (r2::eval(ctx, &env, a).map_err(|e| e.0)?, r2::eval(ctx, &env, b).map_err(|e| e.0)?);
        if x != y {
            return Err(format!("written expression evaluates to {}, the one read back to {} under {}\nread back: {}", x.show(), y.show(), show_env(ctx, &env), util::trunc(&r2::render(ctx, b), 600)));
        }
    }
    Ok(())
}

fn cmd_kind(c: &SmtCommand) -> &'static str {
    match c {
        SmtCommand::Exit => "exit",
        SmtCommand::CheckSat => "check-sat",
        SmtCommand::SetLogic(_) => "set-logic",
        SmtCommand::SetOption(..) => "set-option",
        SmtCommand::SetInfo(..) => "set-info",
        SmtCommand::Assert(_) => "assert",
        SmtCommand::DeclareConst(_) => "declare-const",
        SmtCommand::DefineConst(..) => "define-fun",
        SmtCommand::CheckSatAssuming(v) => {
            if v.len() == 1 { "check-sat-assuming-1" } else { "check-sat-assuming-n" }
        }
        SmtCommand::Push(_) => "push",
        SmtCommand::Pop(_) => "pop",
        SmtCommand::GetValue(_) => "get-value",
        SmtCommand::GetUnsatAssumptions => "get-unsat-assumptions",
    }
}

/// is `got` the same command as `want` (expressions up to equivalence)?
fn same_cmd(sh: &mut Shard, ctx: &Context, rng: &mut Rng, want: &SmtCommand, got: &SmtCommand) -> Result<(), String> {
    use SmtCommand::*;
    match (want, got) {
        (Assert(a), Assert(b)) | (GetValue(a), GetValue(b)) => equivalent(sh, ctx, rng, *a, *b),
        (DeclareConst(a), DeclareConst(b)) => {
            if a == b { Ok(()) } else { Err(format!("declared symbol {} read back as {}", r2::render(ctx, *a), r2::render(ctx, *b))) }
        }
        (DefineConst(s1, a), DefineConst(s2, b)) => {
            if s1 != s2 {
                return Err(format!("defined symbol {} read back as {}", r2::render(ctx, *s1), r2::render(ctx, *s2)));
            }
            equivalent(sh, ctx, rng, *a, *b)
        }
        (CheckSatAssuming(v1), CheckSatAssuming(v2)) => {
            if v1.len() != v2.len() {
                return Err(format!("{} assumptions written, {} read back", v1.len(), v2.len()));
            }
            for (a, b) in v1.iter().zip(v2.iter()) {
                equivalent(sh, ctx, rng, *a, *b)?;
            }
            Ok(())
        }
        (a, b) => {
            if a == b { Ok(()) } else { Err(format!("command {a:?} read back as {b:?}")) }
        }
    }
}

// ------------------------------------------------------------------------------------------------
// G5: model value texts with their denotation

fn spell_scalar(rng: &mut Rng, b: &Bv, bool_sort: bool) -> String {
    if bool_sort {
        return if b.is_true() { "true".into() } else { "false".into() };
    }
    if b.w % 4 == 0 && rng.flip() {
        let mut h = b.v.to_str_radix(16);
        while (h.len() as u32) < b.w / 4 {
            h.insert(0, '0');
        }
        if rng.flip() {
            h = h.to_uppercase();
        }
        format!("#x{h}")
    } else {
        format!("#b{}", b.bit_str())
    }
}

fn sort_text(w: u32, as_bool: bool) -> String {
    if as_bool { "Bool".into() } else { format!("(_ BitVec {w})") }
}

/// a value text in one of the forms solvers print + its denotation
fn value_text(rng: &mut Rng) -> (String, Val) {
    if rng.chance(1, 3) {
        let w = *rng.pick(&[1u32, 1, 2, 3, 4, 8, 16, 31, 32, 33, 64, 65, 128, 129, 132, 136, 192, 256, 260, 512, 516]);
        let b = Bv::new(w, lit_shape(rng, w));
        let as_bool = w == 1 && rng.flip();
        return (spell_scalar(rng, &b, as_bool), Val::B(b));
    }
    // arrays: Bool-indexed / Bool-valued variants when the width is 1
    let iw = *rng.pick(&[1u32, 1, 2, 3, 4, 8, 32]);
    let dw = *rng.pick(&[1u32, 1, 2, 4, 8, 33, 64, 128, 132, 200, 256]);
    let ibool = iw == 1 && rng.chance(3, 4);
    let dbool = dw == 1 && rng.chance(3, 4);
    let default = Bv::new(dw, lit_shape(rng, dw));
    let mut arr = ArrV::constant(iw, &default);
    let sort = format!("(Array {} {})", sort_text(iw, ibool), sort_text(dw, dbool));
    let mut text = format!("((as const {sort}) {})", spell_scalar(rng, &default, dbool));
    let nstores = rng.below(5);
    let mut lets: Vec<(String, String)> = vec![];
    for k in 0..nstores {
        let i = Bv::new(iw, if iw <= 2 { num_bigint::BigUint::from(rng.below(1 << iw)) } else { lit_shape(rng, iw) });
        let d = Bv::new(dw, lit_shape(rng, dw));
        arr = arr.store(&i, &d);
        // sometimes name the array built so far with a let (as z3 does: a!1, a!2, ...)
        if rng.chance(1, 3) {
            let name = format!("a!{}", k + 1);
            lets.push((name.clone(), text));
            text = name;
        }
        text = format!("(store {} {} {})", text, spell_scalar(rng, &i, ibool), spell_scalar(rng, &d, dbool));
    }
    for (name, def) in lets.into_iter().rev() {
        text = format!("(let (({name} {def})) {text})");
    }
    if rng.chance(1, 6) {
        text = text.replace(") ", ")\n  ");
    }
    (text, Val::A(arr))
}


// G5b: terms with let scopes (single and parallel bindings, shadowing of outer lets and of declared
// constants, names used again after their scope has closed), judged by the R6 front end

const LET_NAMES: &[&str] = &["a!1", "a!2", "x", "a", "b", "m", "tmp", "a b"];

#[derive(Clone, Copy, PartialEq)]
enum LS {
    B,
    A,
}

struct LetGen {
    w: u32,
    /// names that are declared constants: (name, sort)
    declared: Vec<(&'static str, LS)>,
    multi: bool,
    escapes: bool,
    used_escape: bool,
    used_multi: bool,
    shadowed_declared: bool,
    reused_after_close: bool,
    closed: Vec<String>,
}

impl LetGen {
    fn visible(&self, scope: &[(String, LS)], name: &str) -> Option<LS> {
        scope.iter().rev().find(|(n, _)| n == name).map(|x| x.1).or_else(|| self.declared.iter().find(|(n, _)| *n == name).map(|x| x.1))
    }
    fn lit(&self, rng: &mut Rng, ls: LS) -> Term {
        match ls {
            LS::B => Term::Lit(SVal::Bv(Bv::new(self.w, lit_shape(rng, self.w)))),
            LS::A => Term::App(Op::ConstArray(Sort::Arr(Box::new(Sort::Bv(2)), Box::new(Sort::Bv(self.w)))), vec![self.lit(rng, LS::B)]),
        }
    }
    fn term(&mut self, rng: &mut Rng, ls: LS, depth: u32, scope: &mut Vec<(String, LS)>) -> Term {
        let leaf = depth == 0 || rng.chance(1, 5);
        if leaf {
            // a visible name of the right sort, or a literal
            let mut names: Vec<String> = LET_NAMES.iter().filter(|n| self.visible(scope, n) == Some(ls)).map(|n| n.to_string()).collect();
            if self.escapes && !self.used_escape && rng.chance(1, 6) {
                // a name that is bound nowhere at this point
                if let Some(n) = LET_NAMES.iter().find(|n| self.visible(scope, n).is_none()) {
                    self.used_escape = true;
                    return Term::Sym(n.to_string());
                }
            }
            if !names.is_empty() && rng.chance(3, 4) {
                let n = rng.pick(&mut names).clone();
                if self.closed.contains(&n) && !scope.iter().any(|(k, _)| *k == n) {
                    self.reused_after_close = true;
                }
                return Term::Sym(n);
            }
            return self.lit(rng, ls);
        }
        if rng.chance(2, 5) {
            // a let: one binding, or several parallel ones (definitions see the outer scope only)
            let nb = if self.multi && rng.chance(1, 3) { rng.range(2, 3) as usize } else { 1 };
            let mut binds: Vec<(String, LS, Term)> = vec![];
            for _ in 0..nb {
                let name = rng.pick(LET_NAMES).to_string();
                if binds.iter().any(|b| b.0 == name) {
                    continue;
                }
                let bs = if rng.chance(1, 3) { LS::A } else { LS::B };
                let def = self.term(rng, bs, depth - 1, scope);
                binds.push((name, bs, def));
            }
            if binds.len() > 1 {
                self.used_multi = true;
            }
            for (n, s, _) in &binds {
                if self.declared.iter().any(|d| d.0 == n) {
                    self.shadowed_declared = true;
                }
                scope.push((n.clone(), *s));
            }
            let body = self.term(rng, ls, depth - 1, scope);
            for (n, _, _) in &binds {
                scope.pop();
                self.closed.push(n.clone());
            }
            return Term::Let(binds.into_iter().map(|(n, _, d)| (n, d)).collect(), Box::new(body));
        }
        match ls {
            LS::B => match rng.below(7) {
                0 => Term::App(Op::BvNot, vec![self.term(rng, LS::B, depth - 1, scope)]),
                1 => Term::App(Op::Select, vec![self.term(rng, LS::A, depth - 1, scope), Term::Lit(SVal::Bv(Bv::from_u64(2, rng.below(4))))]),
                2 => {
                    let c = Term::App(Op::Eq, vec![self.term(rng, LS::B, depth - 1, scope), self.term(rng, LS::B, depth - 1, scope)]);
                    Term::App(Op::Ite, vec![c, self.term(rng, LS::B, depth - 1, scope), self.term(rng, LS::B, depth - 1, scope)])
                }
                k => {
                    let op = [Op::BvAdd, Op::BvAnd, Op::BvOr, Op::BvXor][(k % 4) as usize].clone();
                    Term::App(op, vec![self.term(rng, LS::B, depth - 1, scope), self.term(rng, LS::B, depth - 1, scope)])
                }
            },
            LS::A => Term::App(Op::Store, vec![self.term(rng, LS::A, depth - 1, scope), Term::Lit(SVal::Bv(Bv::from_u64(2, rng.below(4)))), self.term(rng, LS::B, depth - 1, scope)]),
        }
    }
}

/// truncated / unbalanced variants
fn variants(rng: &mut Rng, text: &str, n: usize) -> Vec<(String, &'static str)> {
    let mut out = vec![];
    let chars: Vec<usize> = text.char_indices().map(|(i, _)| i).collect();
    for _ in 0..n {
        match rng.below(4) {
            0 | 1 => {
                // proper prefix
                if chars.len() > 1 {
                    let cut = chars[rng.range(1, chars.len() as u64 - 1) as usize];
                    out.push((text[..cut].to_string(), "prefix"));
                }
            }
            2 => {
                // delete one parenthesis
                let ps: Vec<usize> = text.char_indices().filter(|(_, c)| *c == '(' || *c == ')').map(|(i, _)| i).collect();
                if !ps.is_empty() {
                    let p = *rng.pick(&ps);
                    out.push((format!("{}{}", &text[..p], &text[p + 1..]), "paren-deleted"));
                }
            }
            _ => {
                let p = chars[rng.usize(chars.len())];
                let c = if rng.flip() { '(' } else { ')' };
                out.push((format!("{}{}{}", &text[..p], c, &text[p..]), "paren-inserted"));
            }
        }
    }
    out
}

fn denotes(ctx: &Context, e: ExprRef, want: &Val) -> Result<(), String> {
    r2::deep_type_check(ctx, e).map_err(|m| format!("ill-typed result: {m}"))?;
    let got = r2::eval(ctx, &Env::default(), e).map_err(|e| format!("result is not closed: {}", e.0))?;
    // 1-bit values and Bool coincide in the IR; arrays compared extensionally with matching widths
    if got == *want { Ok(()) } else { Err(format!("read as {} but the text denotes {}", got.show(), want.show())) }
}

impl C14 {
    fn roundtrip(&self, sh: &mut Shard, ctx: &mut Context, rng: &mut Rng, e: ExprRef) {
        let mut st: St = Default::default();
        let syms = r2::symbols_of(ctx, &[e]);
        for s in &syms {
            st.insert(ctx.get_symbol_name(*s).unwrap().to_string(), *s);
        }
        let ty = e.get_type(ctx);
        let mut cmds: Vec<SmtCommand> = vec![];
        for s in &syms {
            cmds.push(SmtCommand::DeclareConst(*s));
        }
        cmds.push(SmtCommand::GetValue(e));
        let dname = ctx.string("d e f".into());
        let dsym = ctx.symbol(dname, ty);
        cmds.push(SmtCommand::DefineConst(dsym, e));
        if ty == Type::BV(1) {
            cmds.push(SmtCommand::Assert(e));
            let ne = ctx.not(e);
            cmds.push(SmtCommand::CheckSatAssuming(vec![e]));
            if rng.chance(1, 3) {
                cmds.push(SmtCommand::CheckSatAssuming(vec![e, ne]));
            }
        }
        match rng.below(8) {
            0 => cmds.push(SmtCommand::SetLogic(rng.pick(&[Logic::All, Logic::QfAufbv, Logic::QfAbv, Logic::QfBv]).clone())),
            1 => cmds.push(SmtCommand::SetOption("produce-models".into(), "true".into())),
            2 => cmds.push(SmtCommand::SetInfo("source".into(), "x".into())),
            3 => cmds.push(SmtCommand::Push(rng.range(1, 3))),
            4 => cmds.push(SmtCommand::Pop(1)),
            5 => cmds.push(SmtCommand::CheckSat),
            6 => cmds.push(SmtCommand::GetUnsatAssumptions),
            _ => cmds.push(SmtCommand::Exit),
        }
        let mut script = String::new();
        for cmd in cmds.iter() {
            let Ok(text) = cmd_text(ctx, cmd) else { continue };
            script.push_str(&text);
            let kind = cmd_kind(cmd);
            sh.hist("commands", kind);
            sh.count("commands_read_back", 1);
            let res = util::catch(|| parse_command(ctx, &st, text.as_bytes()));
            let problem: Option<(String, String)> = match res {
                Err(p) => Some((format!("panic|{}", p.loc()), format!("parse_command panicked at {}: {}", p.loc(), util::trunc(&p.msg, 200)))),
                Ok(Err(err)) => Some(("error".into(), format!("parse_command returned an error: {err}"))),
                Ok(Ok(got)) => same_cmd(sh, ctx, rng, cmd, &got).err().map(|d| ("differs".to_string(), d)),
            };
            if let Some((k, d)) = problem {
                sh.violation(format!("C14|roundtrip|{kind}|{k}"), format!("{d}\nwritten text: {}\nexpression: {}", util::trunc(text.trim(), 1200), util::trunc(&r2::render(ctx, e), 600)), json!({"text": text}));
                return;
            }
            // the bare term through parse_expr
            if let SmtCommand::Assert(a) = cmd {
                let term = text.trim().strip_prefix("(assert ").and_then(|t| t.strip_suffix(')')).unwrap_or("");
                let r = util::catch(|| parse_expr(ctx, &st, term.as_bytes()));
                let problem = match r {
                    Err(p) => Some((format!("panic|{}", p.loc()), format!("parse_expr panicked at {}: {}", p.loc(), p.msg))),
                    Ok(Err(err)) => Some(("error".into(), format!("parse_expr returned an error: {err}"))),
                    Ok(Ok(got)) => equivalent(sh, ctx, rng, *a, got).err().map(|d| ("differs".to_string(), d)),
                };
                if let Some((k, d)) = problem {
                    sh.violation(format!("C14|roundtrip|parse_expr|{k}"), format!("{d}\nterm: {}", util::trunc(term, 1200)), json!({"text": term}));
                    return;
                }
            }
        }
        // the whole script through read_command; in the stream a name may be declared again after the scope of its
        // first declaration was popped (the push/pop emulation of check-sat-assuming does that), with another sort
        if rng.chance(1, 2) {
            let (w1, w2) = (*rng.pick(&[1u32, 4, 8]), *rng.pick(&[2u32, 5, 8, 33]));
            let name = *rng.pick(&["re x", "tmp", "a!1"]);
            let x1 = ctx.bv_symbol(name, w1);
            let x2 = if rng.chance(1, 4) { ctx.array_symbol(name, 2, w2) } else { ctx.bv_symbol(name, w2) };
            let mut phase2 = vec![SmtCommand::Push(1), SmtCommand::DeclareConst(x1)];
            let z1 = ctx.zero(w1);
            let c1 = ctx.equal(x1, z1);
            phase2.push(SmtCommand::Assert(c1));
            phase2.push(SmtCommand::GetValue(x1));
            phase2.push(SmtCommand::Pop(1));
            phase2.push(SmtCommand::DeclareConst(x2));
            if x2.get_type(ctx).is_bit_vector() {
                let o2 = ctx.ones(w2);
                let c2 = ctx.greater_or_equal(o2, x2);
                phase2.push(SmtCommand::Assert(c2));
            }
            phase2.push(SmtCommand::GetValue(x2));
            for cmd in phase2 {
                let Ok(text) = cmd_text(ctx, &cmd) else { continue };
                script.push_str(&text);
                cmds.push(cmd);
            }
            sh.count("scripts_declaring_a_name_again_after_pop", 1);
        }
        let mut st2: St = Default::default();
        let mut rd = std::io::BufReader::new(script.as_bytes());
        for (k, cmd) in cmds.iter().enumerate() {
            let r = util::catch(|| read_command(&mut rd, ctx, &mut st2));
            let problem = match r {
                Err(p) => Some((format!("panic|{}", p.loc()), format!("read_command panicked at {}: {}", p.loc(), util::trunc(&p.msg, 300)))),
                Ok(Err(err)) => Some(("io-error".into(), format!("{err}"))),
                Ok(Ok(None)) => Some(("eof".into(), format!("end of input reported at command {k} of {}", cmds.len()))),
                Ok(Ok(Some(got))) => same_cmd(sh, ctx, rng, cmd, &got).err().map(|d| ("differs".to_string(), d)),
            };
            sh.count("commands_streamed", 1);
            if let Some((kk, d)) = problem {
                sh.violation(format!("C14|read_command|{}|{kk}", cmd_kind(cmd)), format!("{d}\nscript:\n{}", util::trunc(&script, 2500)), json!({"script": script}));
                return;
            }
        }
    }

    fn lets(&self, sh: &mut Shard, rng: &mut Rng) {
        let w = *rng.pick(&[2u32, 3, 8, 33]);
        let mut g = LetGen {
            w,
            declared: vec![("a", LS::B), ("b", LS::B), ("m", LS::A)],
            multi: rng.chance(1, 4),
            escapes: rng.chance(1, 8),
            used_escape: false,
            used_multi: false,
            shadowed_declared: false,
            reused_after_close: false,
            closed: vec![],
        };
        let ls = if rng.chance(1, 4) { LS::A } else { LS::B };
        let depth = rng.range(2, 5) as u32;
        let term = g.term(rng, ls, depth, &mut vec![]);
        let mut text = smt::show_term(&term);
        if rng.chance(1, 6) {
            text = text.replace(") ", ")\n  ");
        }
        if !text.contains("let") {
            return;
        }
        sh.count("let_terms", 1);
        // the judge: strict front end with the same declarations
        let mut scope = Scope::new();
        let bsort = Sort::Bv(w);
        let asort = Sort::Arr(Box::new(Sort::Bv(2)), Box::new(Sort::Bv(w)));
        scope.declare("a", bsort.clone()).unwrap();
        scope.declare("b", bsort.clone()).unwrap();
        scope.declare("m", asort.clone()).unwrap();
        let verdict: Result<Term, String> = smt::parse_sexprs(&text).map_err(|e| format!("{e:?}")).and_then(|sx| if sx.len() == 1 { smt::parse_term(&sx[0]) } else { Err("not one term".into()) }).and_then(|t| scope.sort_of(&t).map(|_| t));
        let mut ctx = Context::default();
        let mut st: St = Default::default();
        let (sa, sb, sm) = (ctx.bv_symbol("a", w), ctx.bv_symbol("b", w), ctx.array_symbol("m", 2, w));
        st.insert("a".into(), sa);
        st.insert("b".into(), sb);
        st.insert("m".into(), sm);
        let got = util::catch(|| parse_expr(&mut ctx, &st, text.as_bytes()));
        let shape = if g.used_multi { "parallel-bindings" } else { "single-bindings" };
        match (verdict, got) {
            (_, Err(p)) => {
                sh.violation(format!("C14|let|panic|{}|{shape}", p.loc()), format!("reading a term with let scopes panicked at {}: {}\ntext: {text}", p.loc(), util::trunc(&p.msg, 200)), json!({"text": text}));
            }
            (Err(why), Ok(Err(_))) => {
                sh.count("let_terms_ill_scoped_and_rejected", 1);
                let _ = why;
            }
            (Err(why), Ok(Ok(e))) => {
                sh.violation(format!("C14|let|accepted-ill-scoped|{shape}"), format!("the term is not well-formed ({why}) but was read as {}\ntext: {text}", util::trunc(&r2::render(&ctx, e), 400)), json!({"text": text}));
            }
            (Ok(_), Ok(Err(err))) => {
                sh.violation(format!("C14|let|rejected|{shape}"), format!("a well-formed term with let scopes was rejected: {err}\ntext: {text}"), json!({"text": text}));
            }
            (Ok(t), Ok(Ok(e))) => {
                if g.used_multi {
                    sh.count("let_terms_with_parallel_bindings", 1);
                }
                if g.shadowed_declared {
                    sh.count("let_terms_shadowing_a_declared_constant", 1);
                }
                if g.reused_after_close {
                    sh.count("let_terms_reusing_a_name_after_its_scope_closed", 1);
                }
                if let Err(m) = r2::deep_type_check(&ctx, e) {
                    sh.violation(format!("C14|let|ill-typed|{shape}"), format!("result is ill-typed: {m}\ntext: {text}"), json!({"text": text}));
                    return;
                }
                for _ in 0..4 {
                    let va = Bv::new(w, lit_shape(rng, w));
                    let vb = Bv::new(w, lit_shape(rng, w));
                    let mut vm = ArrV::constant(2, &Bv::new(w, lit_shape(rng, w)));
                    for _ in 0..rng.below(4) {
                        vm = vm.store(&Bv::from_u64(2, rng.below(4)), &Bv::new(w, lit_shape(rng, w)));
                    }
                    let mut model: Model = Default::default();
                    model.insert("a".into(), SVal::Bv(va.clone()));
                    model.insert("b".into(), SVal::Bv(vb.clone()));
                    model.insert("m".into(), super::c05::sval_of_val(&Val::A(vm.clone()), Type::Array(patronus::expr::ArrayType { index_width: 2, data_width: w })));
                    let want = Evaluator::new(&scope, &model).eval(&t).expect("reference evaluation of a well-sorted term");
                    let mut env = Env::default();
                    env.insert(sa, Val::B(va));
                    env.insert(sb, Val::B(vb));
                    env.insert(sm, Val::A(vm));
                    sh.count("evaluations", 1);
                    let have = match r2::eval(&ctx, &env, e) {
                        Ok(v) => v,
                        Err(er) => {
                            sh.violation(format!("C14|let|free-name|{shape}"), format!("the result mentions something that is neither a, b nor m: {}\ntext: {text}\nread as: {}", er.0, util::trunc(&r2::render(&ctx, e), 400)), json!({"text": text}));
                            return;
                        }
                    };
                    let have_s = super::c05::sval_of_val(&have, e.get_type(&ctx));
                    if !have_s.same(&want) {
                        sh.violation(
                            format!("C14|let|wrong-value|{shape}"),
                            format!("the text denotes {} but was read as an expression with value {} under {}\ntext: {text}\nread as: {}", want.show(), have_s.show(), show_env(&ctx, &env), util::trunc(&r2::render(&ctx, e), 400)),
                            json!({"text": text}),
                        );
                        return;
                    }
                }
                sh.distinct(util::hash_str(&text));
                if sh.want_sample() && text.len() > 40 {
                    sh.sample(json!({"let_term": text}));
                }
            }
        }
    }

    fn values(&self, sh: &mut Shard, rng: &mut Rng) {
        let (text, want) = value_text(rng);
        let mut ctx = Context::default();
        let st: St = Default::default();
        sh.count("value_texts", 1);
        sh.hist("value_forms", match &want {
            Val::B(b) if b.w == 1 => "1-bit",
            Val::B(_) => "bit-vector",
            Val::A(a) if a.iw == 1 || a.dw == 1 => "array-with-1-bit-index-or-data",
            Val::A(_) => "array",
        });
        if text.contains("let") {
            sh.count("value_texts_with_let", 1);
        }
        let r = util::catch(|| parse_expr(&mut ctx, &st, text.as_bytes()));
        let problem = match r {
            Err(p) => Some((format!("panic|{}", p.loc()), format!("panicked at {}: {}", p.loc(), util::trunc(&p.msg, 200)))),
            Ok(Err(err)) => Some(("error".into(), format!("returned an error: {err}"))),
            Ok(Ok(e)) => denotes(&ctx, e, &want).err().map(|d| ("wrong-value".to_string(), d)),
        };
        if let Some((k, d)) = problem {
            sh.violation(format!("C14|value|{k}"), format!("reading a well-formed model value {d}\ntext: {text}\ndenotation: {}", want.show()), json!({"text": text}));
            return;
        }
        sh.distinct(util::hash_str(&text));
        if sh.want_sample() && text.len() > 30 {
            sh.sample(json!({"value_text": text, "denotes": want.show()}));
        }
        // malformed variants: an error, or (if the edit was harmless) the same value; never another value, never a panic
        for (v, kind) in variants(rng, &text, 6) {
            sh.count("malformed_variants", 1);
            let mut c2 = Context::default();
            match util::catch(|| parse_expr(&mut c2, &st, v.as_bytes())) {
                Err(p) => {
                    sh.violation(format!("C14|malformed|panic|{}", p.loc()), format!("{kind} variant makes the reader panic at {}: {}\nvariant: {v}\noriginal: {text}", p.loc(), util::trunc(&p.msg, 200)), json!({"text": v}));
                    return;
                }
                Ok(Err(_)) => sh.count("malformed_rejected", 1),
                Ok(Ok(e)) => {
                    if let Err(d) = denotes(&c2, e, &want) {
                        // a prefix that is itself a complete value of another sort is not "malformed": only
                        // complain when the variant is not a well-formed value text on its own
                        let standalone_ok = crate::refsem::smt::parse_sexprs(&v).map(|s| s.len() == 1).unwrap_or(false);
                        if standalone_ok {
                            sh.count("variants_wellformed_on_their_own", 1);
                        } else {
                            sh.violation(format!("C14|malformed|wrong-value|{kind}"), format!("{kind} variant is accepted with a wrong value: {d}\nvariant: {v}\noriginal: {text}"), json!({"text": v}));
                            return;
                        }
                    } else {
                        sh.count("malformed_same_value", 1);
                    }
                }
            }
        }
    }
}

impl Check for C14 {
    fn id(&self) -> &'static str {
        "C14"
    }
    fn work(&self, tier: Tier) -> Vec<WorkItem> {
        vec![WorkItem { mode: "roundtrip", count: tier.pick(60_000, 3_000_000) }, WorkItem { mode: "values", count: tier.pick(150_000, 6_000_000) }, WorkItem { mode: "lets", count: tier.pick(150_000, 6_000_000) }]
    }
    fn evaluations_counter(&self) -> &'static str {
        "commands_read_back"
    }
    fn rule(&self) -> String {
        "mode roundtrip: G1 expressions (as in C05, incl. 1-bit/Bool mixtures, arrays, quoted names); every command the writer emits for them (declare-const per symbol, get-value, define-fun, assert, check-sat-assuming with 1 and 2 terms, plus set-logic/set-option/set-info/push/pop/check-sat/get-unsat-assumptions/exit) is read back with parse_command, the bare term with parse_expr, and the whole script with read_command (half of the scripts go on to declare a name again with another sort after the scope of its first declaration was popped); kinds, symbols and operands must agree, expressions up to equivalence under the reference evaluator (all assignments <= 10 symbol bits, else 8). mode values: G5 model-value texts (widths 1..516 incl. hex spellings of 33 and more digits) in solver spellings (#b/#x, true/false, store chains over (as const ..), let-bound sub-terms a!k, Bool-indexed and Bool-valued arrays, line breaks) with their denotation; parse_expr must give exactly that value; 6 truncated/unbalanced variants each (proper prefixes, one parenthesis deleted or inserted) must give an error or, when the edit leaves a well-formed text, not a wrong value - and never panic. mode lets: G5b terms over declared constants a, b (bit-vectors of width 2/3/8/33) and m (array) with nested let scopes: single and parallel binding lists, bindings of arrays and bit-vectors, binder names that shadow outer lets or the declared constants a/b/m (also with another sort), quoted binder names, names used again after their scope has closed (then denoting the declared constant, or nothing at all); the R6 front end decides well-formedness and gives the value under 4 random models: a well-formed term must be read as an expression with that value, an ill-scoped one must be an error, never a panic. distinct_nontrivial = distinct value and let texts read correctly.".into()
    }
    fn assumptions(&self) -> Vec<String> {
        vec!["the get-value response reader is exercised through parse_expr here (same term parser) and through SolverContext::get_value against the reference solver in C02/C03".into()]
    }
    fn run_case(&self, sh: &mut Shard, case: &CaseId) {
        let mut rng = Rng::new(sh.case_seed());
        if case.mode == "values" {
            self.values(sh, &mut rng);
            return;
        }
        if case.mode == "lets" {
            self.lets(sh, &mut rng);
            return;
        }
        let mut ctx = Context::default();
        let mut cfg = GenCfg::default();
        if rng.chance(1, 3) {
            cfg.small = true;
            cfg.max_width = 8;
            cfg.max_data_width = 3;
            cfg.max_index_width = 2;
        }
        let prefix = *rng.pick(&["", "v_", "#x", "a b ", "x$y:", "0", "[3]#", "ü", "sig."]);
        let (e, _) = {
            let mut g = ExprGen::new(&mut rng, cfg);
            g.sym_prefix = prefix.to_string();
            g.top(&mut ctx)
        };
        self.roundtrip(sh, &mut ctx, &mut rng, e);
    }
    fn finalize(&self, m: &mut Merged, tier: Tier) {
        m.floor("commands read back", m.c("commands_read_back"), tier.pick(200_000, 10_000_000));
        m.floor("value texts", m.c("value_texts"), tier.pick(150_000, 6_000_000));
        m.floor("malformed variants", m.c("malformed_variants"), tier.pick(500_000, 20_000_000));
        m.floor("value texts with let", m.c("value_texts_with_let"), tier.pick(10_000, 400_000));
        m.floor("let terms read and judged", m.c("let_terms"), tier.pick(40_000, 1_500_000));
        m.floor("let terms with parallel bindings", m.c("let_terms_with_parallel_bindings"), tier.pick(4_000, 150_000));
        m.floor("let terms shadowing a declared constant", m.c("let_terms_shadowing_a_declared_constant"), tier.pick(20_000, 800_000));
        m.floor("let terms reusing a name after its scope closed", m.c("let_terms_reusing_a_name_after_its_scope_closed"), tier.pick(10_000, 400_000));
        m.floor("ill-scoped let terms rejected", m.c("let_terms_ill_scoped_and_rejected"), tier.pick(2_000, 80_000));
    }
}

//! debugging aid: `probe btor2 <file>` parses a btor2 file with patronus and with the reference reader
use patronus::expr::Context;
fn main() {
    let args: Vec<String> = std::env::args().collect();
    match args.get(1).map(|s| s.as_str()) {
        Some("btor2") => {
            let text = std::fs::read_to_string(&args[2]).unwrap();
            let mut ctx = Context::default();
            let r = patronus::btor2::parse_str(&mut ctx, &text, Some("probe"));
            println!("patronus: {}", if r.is_some() { "accepted" } else { "rejected" });
            println!("reference: {:?}", vharness::refsem::btor2_ref::B2::load(&text).map(|_| "accepted"));
        }
        _ => eprintln!("usage: probe btor2 <file>"),
    }
}

//! debugging aid: `probe btor2 <file>` parses a btor2 file with patronus and with the reference reader
use patronus::expr::Context;
fn main() {
    let args: Vec<String> = std::env::args().collect();
    match args.get(1).map(|s| s.as_str()) {
        Some("btor2") => {
            let text = std::fs::read_to_string(&args[2]).unwrap();
            let mut ctx = Context::default();
            let r = patronus::btor2::parse_str(&mut ctx, &text, Some("probe"));
            println!("patronus: {}", if r.is_some() { "accepted" } else { "rejected" });
            println!("reference: {:?}", vharness::refsem::btor2_ref::B2::load(&text).map(|_| "accepted"));
        }
        Some("smt") => {
            // probe smt '<term>' name:width ... (arrays as name:iw:dw)
            let mut ctx = Context::default();
            let mut st: rustc_hash::FxHashMap<String, patronus::expr::ExprRef> = Default::default();
            for d in &args[3..] {
                let p: Vec<&str> = d.split(':').collect();
                let e = if p.len() == 2 { ctx.bv_symbol(p[0], p[1].parse().unwrap()) } else { ctx.array_symbol(p[0], p[1].parse().unwrap(), p[2].parse().unwrap()) };
                st.insert(p[0].to_string(), e);
            }
            match patronus::smt::parse_expr(&mut ctx, &st, args[2].as_bytes()) {
                Ok(e) => println!("ok: {}", vharness::refsem::expr_eval::render(&ctx, e)),
                Err(e) => println!("error: {e}"),
            }
        }
        Some("selftest") => selftest(args.get(2).and_then(|s| s.parse().ok()).unwrap_or(2000)),
        _ => eprintln!("usage: probe btor2 <file> | probe selftest [terms per operator]"),
    }
}

/// cross-checks the reference semantics R1 (through the R6 evaluator) against z3 on random ground terms
fn selftest(per_op: usize) {
    use std::io::{BufRead, BufReader, Write};
    use vharness::refsem::bv::Bv;
    use vharness::refsem::smt::*;
    use vharness::util::Rng;
    use vharness::wl::expr::lit_shape;
    let mut z3 = std::process::Command::new("/usr/bin/z3").arg("-in").stdin(std::process::Stdio::piped()).stdout(std::process::Stdio::piped()).spawn().expect("z3");
    let mut zin = z3.stdin.take().unwrap();
    let mut zout = BufReader::new(z3.stdout.take().unwrap());
    let mut rng = Rng::new(7);
    let bin = [Op::BvAnd, Op::BvOr, Op::BvXor, Op::BvAdd, Op::BvSub, Op::BvMul, Op::BvUdiv, Op::BvUrem, Op::BvSdiv, Op::BvSrem, Op::BvSmod, Op::BvShl, Op::BvLshr, Op::BvAshr, Op::BvUlt, Op::BvUle, Op::BvUgt, Op::BvUge, Op::BvSlt, Op::BvSle, Op::BvSgt, Op::BvSge, Op::Concat, Op::Eq];
    let (mut n, mut bad) = (0u64, 0u64);
    let lit = |rng: &mut Rng, w: u32| Term::Lit(SVal::Bv(Bv::new(w, lit_shape(rng, w))));
    let scope = Scope::new();
    let model = Model::new();
    let mut check = |t: Term, n: &mut u64, bad: &mut u64| {
        let want = Evaluator::new(&scope, &model).eval(&t).unwrap();
        writeln!(zin, "(simplify {})", show_term(&t)).unwrap();
        zin.flush().unwrap();
        let mut line = String::new();
        zout.read_line(&mut line).unwrap();
        let got = parse_sexprs(line.trim()).ok().and_then(|s| s.first().cloned()).and_then(|s| parse_term(&s).ok());
        *n += 1;
        match got {
            Some(Term::Lit(v)) if v == want => {}
            other => {
                *bad += 1;
                if *bad < 10 {
                    println!("MISMATCH {} : reference {} z3 {:?}", show_term(&t), want.show(), other);
                }
            }
        }
    };
    for op in bin.iter() {
        for _ in 0..per_op {
            let w = *rng.pick(&[1u32, 2, 3, 4, 7, 8, 16, 31, 32, 33, 63, 64, 65, 128, 129]);
            let (a, b) = (lit(&mut rng, w), lit(&mut rng, w));
            check(Term::App(op.clone(), vec![a, b]), &mut n, &mut bad);
        }
    }
    for _ in 0..per_op {
        let w = *rng.pick(&[1u32, 2, 5, 8, 33, 64, 65, 129]);
        let a = lit(&mut rng, w);
        let lo = rng.below(w as u64) as u32;
        let hi = rng.range(lo as u64, w as u64 - 1) as u32;
        check(Term::App(Op::Extract(hi, lo), vec![a.clone()]), &mut n, &mut bad);
        check(Term::App(Op::ZeroExt(rng.below(70) as u32), vec![a.clone()]), &mut n, &mut bad);
        check(Term::App(Op::SignExt(rng.below(70) as u32), vec![a.clone()]), &mut n, &mut bad);
        check(Term::App(Op::BvNot, vec![a.clone()]), &mut n, &mut bad);
        check(Term::App(Op::BvNeg, vec![a]), &mut n, &mut bad);
    }
    println!("selftest: {n} ground terms compared with z3, {bad} mismatches");
    let _ = writeln!(zin, "(exit)");
    std::process::exit(if bad == 0 { 0 } else { 1 });
}

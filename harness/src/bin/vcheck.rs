use std::path::PathBuf;
use vharness::runner::{self, Tier};

fn usage() -> ! {
    eprintln!("usage: vcheck <ID> [--tier quick|thorough] [--seed N] [--replay path]");
    std::process::exit(2);
}

fn main() {
    let args: Vec<String> = std::env::args().skip(1).collect();
    if args.is_empty() {
        usage();
    }
    let id = args[0].clone();
    let mut tier = std::env::var("VERIF_TIER").ok().and_then(|t| Tier::parse(&t)).unwrap_or(Tier::Quick);
    let mut tier_given = false;
    let mut seed: u64 = std::env::var("VERIF_SEED").ok().and_then(|s| s.parse().ok()).unwrap_or(1);
    let mut shard: Option<u64> = None;
    let mut nshards = 16;
    let mut outdir: Option<PathBuf> = None;
    let mut replay: Option<PathBuf> = None;
    let mut i = 1;
    while i < args.len() {
        match args[i].as_str() {
            "quick" | "thorough" if !tier_given => {
                tier = Tier::parse(&args[i]).unwrap();
                tier_given = true;
            }
            "--tier" => {
                i += 1;
                tier = Tier::parse(&args[i]).unwrap_or_else(|| usage());
                tier_given = true;
            }
            "--seed" => {
                i += 1;
                seed = args[i].parse().unwrap_or_else(|_| usage());
            }
            "--shard" => {
                i += 1;
                shard = args[i].parse().ok();
            }
            "--nshards" => {
                i += 1;
                nshards = args[i].parse().unwrap_or(16);
            }
            "--outdir" => {
                i += 1;
                outdir = Some(PathBuf::from(&args[i]));
            }
            "--child" => {
                i += 1;
                vharness::checks::c15::child_main(&args[i]);
                return;
            }
            "--replay" => {
                i += 1;
                replay = Some(PathBuf::from(&args[i]));
            }
            _ => usage(),
        }
        i += 1;
    }
    let Some(check) = vharness::checks::by_id(&id) else {
        eprintln!("unknown property id {id}");
        std::process::exit(2);
    };
    if let Some(p) = replay {
        std::process::exit(runner::run_replay(check.as_ref(), &p));
    }
    if let Some(s) = shard {
        runner::run_shard(check.as_ref(), tier, seed, s, nshards, &outdir.expect("--outdir"));
        return;
    }
    std::process::exit(runner::run_parent(check.as_ref(), tier, seed));
}

//! refsolver: conversation monitor placed on PATH under the names patronus spawns
//! (bitwuzla, yices-smt2, z3, cvc5).
//!
//! * strict SMT-LIB front end (R6): every command is parsed, scope- and sort-checked; a rejected
//!   command is answered with `(error "...")` at once and logged, the session goes on;
//! * persona: the capability profile of the solver whose name it was started under;
//! * satisfiability is decided by the real z3 (absolute path), models are re-computed and
//!   cross-checked with the R6 evaluator, values are printed in randomly chosen legal spellings;
//! * unsat assumptions: z3's own / minimal (deletion) / full / random superset;
//! * fault injection at the n-th response-bearing point (counter file shared across restarts);
//! * event log (JSON lines) for the offline checkers.
//!
//! Environment: REFSOLVER_LOG, REFSOLVER_SEED, REFSOLVER_CORE, REFSOLVER_DIVERSIFY,
//! REFSOLVER_FAULT=kind@n, REFSOLVER_COUNTER, REFSOLVER_SCRIPT, REFSOLVER_Z3_TIMEOUT_MS.

use num_bigint::BigUint;
use serde_json::json;
use std::collections::{BTreeMap, BTreeSet};
use std::io::{BufRead, BufReader, Write};
use std::process::{Child, ChildStdin, ChildStdout, Command, Stdio};
use vharness::refsem::bv::Bv;
use vharness::refsem::smt::*;
use vharness::util::Rng;

const REAL_Z3: &str = "/usr/bin/z3";

struct Backend {
    child: Option<Child>,
    stdin: Box<dyn Write>,
    stdout: Box<dyn BufRead>,
}

impl Backend {
    /// a private z3 process, or (REFSOLVER_Z3_FIFO_IN/OUT) a long-lived z3 shared by consecutive sessions
    /// of one harness shard: process start-up dominates the cost of the tiny queries of this workload
    fn start(seed: u64, timeout_ms: u64) -> Backend {
        if let (Ok(fin), Ok(fout)) = (std::env::var("REFSOLVER_Z3_FIFO_IN"), std::env::var("REFSOLVER_Z3_FIFO_OUT")) {
            let w = std::fs::OpenOptions::new().write(true).open(&fin).expect("refsolver: z3 fifo (in)");
            let r = std::fs::File::open(&fout).expect("refsolver: z3 fifo (out)");
            let mut b = Backend { child: None, stdin: Box::new(w), stdout: Box::new(BufReader::new(r)) };
            b.send("(reset)");
            b.send(&format!("(set-option :smt.random_seed {})", seed % 100000));
            b.send(&format!("(set-option :sat.random_seed {})", seed % 100000));
            let marker = format!("refsolver-sync-{}-{}", std::process::id(), seed);
            b.send(&format!("(echo \"{marker}\")"));
            // discard whatever an earlier (possibly aborted) session left in the pipe
            loop {
                let mut line = String::new();
                match b.stdout.read_line(&mut line) {
                    Ok(0) | Err(_) => break,
                    Ok(_) => {
                        if line.contains(&marker) {
                            break;
                        }
                    }
                }
            }
            b.send("(set-option :produce-unsat-assumptions true)");
            b.send("(set-option :produce-models true)");
            if let Ok(r) = std::env::var("REFSOLVER_RLIMIT") {
                b.send(&format!("(set-option :rlimit {r})"));
            }
            b.send("(set-logic ALL)");
            return b;
        }
        let mut child = Command::new(REAL_Z3)
            .args([
                "-in",
                &format!("sat.random_seed={}", seed % 100000),
                &format!("smt.random_seed={}", seed % 100000),
                "sat.phase=random",
                "smt.phase_selection=5",
                &format!("-t:{timeout_ms}"),
            ])
            .stdin(Stdio::piped())
            .stdout(Stdio::piped())
            .stderr(Stdio::null())
            .spawn()
            .expect("refsolver: cannot start /usr/bin/z3");
        let stdin: ChildStdin = child.stdin.take().unwrap();
        let stdout: ChildStdout = child.stdout.take().unwrap();
        let mut b = Backend { child: Some(child), stdin: Box::new(stdin), stdout: Box::new(BufReader::new(stdout)) };
        b.send("(set-option :produce-unsat-assumptions true)");
        b.send("(set-option :produce-models true)");
        if let Ok(r) = std::env::var("REFSOLVER_RLIMIT") {
            b.send(&format!("(set-option :rlimit {r})"));
        }
        b.send("(set-logic ALL)");
        b
    }
    fn send(&mut self, s: &str) {
        let _ = writeln!(self.stdin, "{s}");
        let _ = self.stdin.flush();
    }
    /// one balanced response
    fn recv(&mut self) -> String {
        let mut out = String::new();
        loop {
            let mut line = String::new();
            match self.stdout.read_line(&mut line) {
                Ok(0) | Err(_) => return out,
                Ok(_) => {}
            }
            out.push_str(&line);
            let bal: i64 = out.chars().map(|c| if c == '(' { 1 } else if c == ')' { -1 } else { 0 }).sum();
            if bal <= 0 && !out.trim().is_empty() {
                return out.trim().to_string();
            }
        }
    }
    fn ask(&mut self, s: &str) -> String {
        self.send(s);
        self.recv()
    }
    fn finish(&mut self) {
        if let Some(mut c) = self.child.take() {
            self.send("(exit)");
            let _ = c.wait();
        }
    }
}

struct Solver {
    persona: String,
    scope: Scope,
    /// assertions per level (for the model self-check)
    asserts: Vec<Vec<Term>>,
    z3: Backend,
    rng: Rng,
    log: Option<std::fs::File>,
    cmd_index: u64,
    /// state after the last check
    last: Last,
    last_assumptions: Vec<Term>,
    core_mode: String,
    diversify: u64,
    model_validated: bool,
    model_is_bogus: bool,
    /// deterministic effort bound per session: number of satisfiability queries answered
    max_checks: Option<u64>,
    nchecks: u64,
    pushed_for_diversification: u32,
    fault: Option<(String, u64)>,
    /// fault armed at the m-th command that bears no response (counted across sessions through `<counter>.seq`)
    cmd_fault: Option<(String, u64)>,
    counter_file: Option<String>,
}

#[derive(PartialEq, Clone, Copy)]
enum Last {
    None,
    Sat,
    Unsat,
}

fn crate_trunc(s: &str) -> String {
    s.chars().take(300).collect()
}

fn out(s: &str) {
    let mut o = std::io::stdout().lock();
    let _ = writeln!(o, "{s}");
    let _ = o.flush();
}

impl Solver {
    fn log(&mut self, v: serde_json::Value) {
        if let Some(f) = self.log.as_mut() {
            let _ = writeln!(f, "{v}");
        }
    }

    fn reject(&mut self, cmd: &str, reason: &str) {
        let i = self.cmd_index;
        self.log(json!({"i": i, "cmd": cmd, "err": reason}));
        out(&format!("(error \"{}\")", reason.replace('"', "'")));
    }

    fn supports(&self, what: &str) -> bool {
        match (self.persona.as_str(), what) {
            ("yices-smt2", "check-sat-assuming") | ("yices-smt2", "get-unsat-assumptions") | ("yices-smt2", "as-const") => false,
            _ => true,
        }
    }

    fn uses_const_array(t: &Term) -> bool {
        match t {
            Term::App(Op::ConstArray(_), _) => true,
            Term::App(_, a) => a.iter().any(Self::uses_const_array),
            Term::Let(b, body) => b.iter().any(|(_, t)| Self::uses_const_array(t)) || Self::uses_const_array(body),
            _ => false,
        }
    }

    /// declared constants a term depends on (through definitions)
    fn deps(&self, t: &Term, acc: &mut BTreeSet<String>, seen: &mut BTreeSet<String>, bound: &mut Vec<String>) {
        match t {
            Term::Lit(_) => {}
            Term::Sym(s) => {
                if bound.contains(s) || !seen.insert(s.clone()) {
                    return;
                }
                match self.scope.lookup(s) {
                    Some(Binding::Declared(_)) => {
                        acc.insert(s.clone());
                    }
                    Some(Binding::Defined(_, body)) => {
                        let body = body.clone();
                        self.deps(&body, acc, seen, &mut vec![]);
                    }
                    None => {}
                }
            }
            Term::App(_, args) => {
                for a in args {
                    self.deps(a, acc, seen, bound);
                }
            }
            Term::Let(b, body) => {
                for (_, x) in b {
                    self.deps(x, acc, seen, bound);
                }
                let n = bound.len();
                bound.extend(b.iter().map(|(n, _)| n.clone()));
                self.deps(body, acc, seen, bound);
                bound.truncate(n);
            }
        }
    }

    /// values of the given declared constants in z3's current model
    fn model_of(&mut self, names: &BTreeSet<String>) -> Result<Model, String> {
        let mut model = Model::new();
        let mut scalar_terms: Vec<(String, Option<BigUint>, Sort)> = vec![]; // (name, array index, sort of the value)
        for n in names {
            match self.scope.lookup(n) {
                Some(Binding::Declared(Sort::Arr(i, e))) => {
                    let ib = i.scalar_bits().unwrap();
                    if ib > 6 {
                        return Err(format!("array `{n}` has a {ib}-bit index: too large for the reference model"));
                    }
                    model.insert(n.clone(), SVal::Arr { isort: (**i).clone(), esort: (**e).clone(), default: BigUint::from(0u32), map: BTreeMap::new() });
                    for k in 0..(1u64 << ib) {
                        scalar_terms.push((n.clone(), Some(BigUint::from(k)), (**e).clone()));
                    }
                }
                Some(Binding::Declared(s)) => scalar_terms.push((n.clone(), None, s.clone())),
                _ => {}
            }
        }
        for chunk in scalar_terms.chunks(200) {
            let mut q = String::from("(get-value (");
            for (n, idx, _) in chunk {
                match idx {
                    None => q.push_str(&format!("{} ", show_symbol(n))),
                    Some(k) => {
                        let isort = match self.scope.lookup(n) {
                            Some(Binding::Declared(Sort::Arr(i, _))) => (**i).clone(),
                            _ => unreachable!(),
                        };
                        q.push_str(&format!("(select {} {}) ", show_symbol(n), SVal::from_num(&isort, k.clone()).show()));
                    }
                }
            }
            q.push_str("))");
            let resp = self.z3.ask(&q);
            let sx = parse_sexprs(&resp).map_err(|e| format!("backend model unreadable: {e:?}: {resp}"))?;
            let items = sx.first().and_then(|s| s.list()).ok_or_else(|| format!("backend model unreadable: {resp}"))?;
            if items.len() != chunk.len() {
                return Err(format!("backend returned {} values for {} terms: {resp}", items.len(), chunk.len()));
            }
            for ((n, idx, sort), item) in chunk.iter().zip(items.iter()) {
                let pair = item.list().filter(|p| p.len() == 2).ok_or("backend model pair")?;
                let v = match parse_term(&pair[1])? {
                    Term::Lit(v) => v,
                    other => return Err(format!("backend value is not a literal: {other:?}")),
                };
                if v.sort() != *sort {
                    return Err(format!("backend value of `{n}` has sort {} expected {}", v.sort().show(), sort.show()));
                }
                match idx {
                    None => {
                        model.insert(n.clone(), v);
                    }
                    Some(k) => {
                        if let Some(SVal::Arr { map, .. }) = model.get_mut(n) {
                            map.insert(k.clone(), v.num());
                        }
                    }
                }
            }
        }
        Ok(model)
    }

    fn spell(&mut self, v: &SVal) -> String {
        match v {
            SVal::Bool(b) => b.to_string(),
            SVal::Bv(b) => {
                if b.w % 4 == 0 && self.rng.flip() {
                    let mut h = b.v.to_str_radix(16);
                    while (h.len() as u32) < b.w / 4 {
                        h.insert(0, '0');
                    }
                    format!("#x{h}")
                } else {
                    format!("#b{}", b.bit_str())
                }
            }
            SVal::Arr { isort, esort, default, map } => {
                // choose the most frequent value as the default of the printed constant array, or not
                let dflt = if self.rng.flip() { default.clone() } else { map.values().next().cloned().unwrap_or_else(|| default.clone()) };
                let sort = v.sort().show();
                let dv = self.spell(&SVal::from_num(esort, dflt.clone()));
                let mut text = format!("((as const {sort}) {dv})");
                let ib = isort.scalar_bits().unwrap();
                let mut entries: Vec<(BigUint, BigUint)> = vec![];
                if ib <= 6 {
                    for k in 0..(1u64 << ib) {
                        let k = BigUint::from(k);
                        let val = map.get(&k).unwrap_or(default).clone();
                        if val != dflt || self.rng.chance(1, 8) {
                            entries.push((k, val));
                        }
                    }
                } else {
                    for (k, val) in map {
                        entries.push((k.clone(), val.clone()));
                    }
                }
                self.rng.shuffle(&mut entries);
                let mut lets: Vec<(String, String)> = vec![];
                for (n, (k, val)) in entries.into_iter().enumerate() {
                    if self.rng.chance(1, 4) {
                        let name = format!("a!{}", n + 1);
                        lets.push((name.clone(), text));
                        text = name;
                    }
                    let ks = self.spell(&SVal::from_num(isort, k));
                    let vs = self.spell(&SVal::from_num(esort, val));
                    text = format!("(store {text} {ks} {vs})");
                }
                for (name, def) in lets.into_iter().rev() {
                    text = format!("(let (({name} {def})) {text})");
                }
                text
            }
        }
    }

    /// a command that bears no response: returns true if a fault was injected (the command is then not executed)
    fn command_fault_point(&mut self, text: &str) -> bool {
        let Some(f) = self.counter_file.clone() else { return false };
        let seq = format!("{f}.seq");
        let m = std::fs::read_to_string(&seq).unwrap_or_default().bytes().filter(|b| *b == b'C').count() as u64;
        if let Ok(mut k) = std::fs::OpenOptions::new().create(true).append(true).open(&seq) {
            // with the length of the command text: the fault-enumeration check looks for long runs of such commands
            let _ = write!(k, "C{} ", text.len());
        }
        let Some((kind, at)) = self.cmd_fault.clone() else { return false };
        if m != at {
            return false;
        }
        self.log(json!({"fault": kind, "at_command": at, "cmd": text}));
        let msg = "injected-command-fault-message-with-(parens)";
        match kind.as_str() {
            "cmd-error" => {
                // the error is reported and the session carries on; the command itself still takes effect, so that
                // the rest of the conversation does not drown in follow-up errors
                out(&format!("(error \"{msg}\")"));
                return false;
            }
            "cmd-error-exit" => {
                out(&format!("(error \"{msg}\")"));
                std::process::exit(1);
            }
            _ => std::process::exit(0),
        }
        true
    }

    /// response-bearing point: returns true if a fault was injected (and the normal answer must not be sent)
    fn fault_point(&mut self, kind_of_point: &str) -> bool {
        let n = match &self.counter_file {
            Some(f) => {
                let cur: u64 = std::fs::read_to_string(f).ok().and_then(|s| s.trim().parse().ok()).unwrap_or(0);
                let _ = std::fs::write(f, format!("{}", cur + 1));
                // which kind of response each point is (read by the fault-enumeration check after the fault-free run)
                if let Ok(mut k) = std::fs::OpenOptions::new().create(true).append(true).open(format!("{f}.kinds")) {
                    let _ = writeln!(k, "{kind_of_point}");
                }
                if let Ok(mut k) = std::fs::OpenOptions::new().create(true).append(true).open(format!("{f}.seq")) {
                    let _ = write!(k, "R ");
                }
                cur
            }
            None => 0,
        };
        let Some((kind, at)) = self.fault.clone() else { return false };
        if n != at {
            return false;
        }
        self.log(json!({"fault": kind, "at": at, "point": kind_of_point}));
        if let Some(len) = kind.strip_prefix("error-len-") {
            let len: usize = len.parse().unwrap_or(5);
            let msg: String = "injected-fault-message-with-(parens)-and-some-more-text-to-be-long-enough".chars().take(len).collect();
            out(&format!("(error \"{msg}\")"));
            return true;
        }
        match kind.as_str() {
            // a message with a lone `|` and apostrophes inside the string literal (what solvers print for a stray character)
            "error-bar" => out("(error \"line 1 column 2: unexpected character '|' (in a term)\")"),
            "unknown" => out("unknown"),
            "empty-line" => out(""),
            "garbage" => out("%%garbage&&"),
            "extra-paren" => out("sat)"),
            "truncated-then-exit" => {
                let mut o = std::io::stdout().lock();
                let _ = write!(o, "((a #b0");
                let _ = o.flush();
                drop(o);
                std::process::exit(0);
            }
            "exit-silently" => std::process::exit(0),
            "exit-nonzero-with-stderr" => {
                eprintln!("injected-stderr-text: solver crashed");
                std::process::exit(3);
            }
            "unsat-instead" => out("unsat"),
            _ => out("(error \"unknown fault kind\")"),
        }
        true
    }

    fn check(&mut self, text: &str, assumptions: Vec<Term>) {
        for a in &assumptions {
            match self.scope.sort_of(a) {
                Ok(Sort::Bool) => {}
                Ok(s) => return self.reject(text, &format!("ill-sorted: assumption has sort {}", s.show())),
                Err(m) => return self.reject(text, &m),
            }
        }
        self.nchecks += 1;
        if let Some(m) = self.max_checks {
            if self.nchecks > m {
                self.last = Last::None;
                self.log(json!({"i": self.cmd_index, "cmd": text, "budget": "session over its query budget"}));
                out(&format!("(error \"refsolver-budget: more than {m} satisfiability queries in one session\")"));
                return;
            }
        }
        // undo diversification scopes of the previous check
        self.undo_diversification();
        let q = if assumptions.is_empty() && !text.starts_with("(check-sat-assuming") {
            "(check-sat)".to_string()
        } else {
            format!("(check-sat-assuming ({}))", assumptions.iter().map(show_term).collect::<Vec<_>>().join(" "))
        };
        let ans = self.z3.ask(&q);
        let i = self.cmd_index;
        self.last_assumptions = assumptions.clone();
        self.model_validated = false;
        self.model_is_bogus = false;
        match ans.as_str() {
            "sat" => {
                self.last = Last::Sat;
                if self.diversify > 0 {
                    self.diversify_model(&q);
                }
            }
            "unsat" => self.last = Last::Unsat,
            _ => self.last = Last::None,
        }
        self.log(json!({"i": i, "cmd": text, "ok": true, "answer": ans, "assumptions": assumptions.len()}));
        if self.fault_point("check") {
            return;
        }
        match ans.as_str() {
            "sat" | "unsat" => out(&ans),
            other => out(&format!("(error \"refsolver-budget: backend answered {}\")", other.replace('"', "'"))),
        }
    }

    /// nudge z3 towards a random model: try to fix some declared scalar constants to random values
    fn diversify_model(&mut self, check_cmd: &str) {
        let mut names: Vec<(String, Sort)> = vec![];
        for (n, _) in self.scope.order.iter() {
            if let Some(Binding::Declared(s)) = self.scope.lookup(n) {
                if let Sort::Bv(_) = s {
                    names.push((n.clone(), s.clone()));
                }
            }
        }
        self.rng.shuffle(&mut names);
        for (n, s) in names.into_iter().take(self.diversify as usize) {
            let Sort::Bv(w) = s else { continue };
            let v = Bv::new(w, self.rng.big(w));
            self.z3.send("(push 1)");
            self.z3.send(&format!("(assert (= {} #b{}))", show_symbol(&n), v.bit_str()));
            let a = self.z3.ask(check_cmd);
            if a == "sat" {
                self.pushed_for_diversification += 1;
            } else {
                self.z3.send("(pop 1)");
                // restore a sat state with a model
                let _ = self.z3.ask(check_cmd);
            }
        }
    }

    fn undo_diversification(&mut self) {
        if self.pushed_for_diversification > 0 {
            self.z3.send(&format!("(pop {})", self.pushed_for_diversification));
            self.pushed_for_diversification = 0;
        }
    }

    fn get_value(&mut self, text: &str, terms: Vec<Term>) {
        for t in &terms {
            if let Err(m) = self.scope.sort_of(t) {
                return self.reject(text, &m);
            }
        }
        if self.last != Last::Sat {
            return self.reject(text, "get-value without a preceding sat answer");
        }
        // the backend's model must be a model: the assumptions of the query it answered `sat` to (and, for small
        // conversations, the assertions) have to hold under the values it hands out - checked once per sat answer
        if !self.model_validated {
            self.model_validated = true;
            let mut must_hold: Vec<Term> = self.last_assumptions.clone();
            if self.asserts.iter().map(|l| l.len()).sum::<usize>() <= 200 {
                for l in &self.asserts {
                    must_hold.extend(l.iter().cloned());
                }
            }
            let mut vnames = BTreeSet::new();
            for t in &must_hold {
                self.deps(t, &mut vnames, &mut BTreeSet::new(), &mut vec![]);
            }
            if let Ok(m) = self.model_of(&vnames) {
                let mut broken = None;
                for t in &must_hold {
                    let mut ev = Evaluator::new(&self.scope, &m);
                    if let Ok(SVal::Bool(false)) = ev.eval(t) {
                        broken = Some(show_term(t));
                        break;
                    }
                }
                if let Some(b) = broken {
                    self.model_is_bogus = true;
                    let i = self.cmd_index;
                    self.log(json!({"i": i, "cmd": text, "backend_model_not_a_model": crate_trunc(&b)}));
                }
            }
        }
        if self.model_is_bogus {
            out("(error \"refsolver-badmodel: the backend's model does not satisfy the query it answered sat to\")");
            return;
        }
        let mut names = BTreeSet::new();
        for t in &terms {
            self.deps(t, &mut names, &mut BTreeSet::new(), &mut vec![]);
        }
        let i = self.cmd_index;
        let model = match self.model_of(&names) {
            Ok(m) => m,
            Err(e) => {
                self.log(json!({"i": i, "cmd": text, "internal": e}));
                if self.fault_point("get-value") {
                    return;
                }
                out(&format!("(error \"refsolver-budget: {}\")", e.replace('"', "'")));
                return;
            }
        };
        let mut parts = vec![];
        let mut logged = vec![];
        for t in &terms {
            let v = {
                let mut ev = Evaluator::new(&self.scope, &model);
                ev.eval(t)
            };
            let v = match v {
                Ok(v) => v,
                Err(e) => {
                    self.log(json!({"i": i, "cmd": text, "internal": e}));
                    out(&format!("(error \"refsolver-internal: {}\")", e.replace('"', "'")));
                    return;
                }
            };
            // cross-check scalar values against the backend's own evaluation
            if !matches!(v, SVal::Arr { .. }) {
                let resp = self.z3.ask(&format!("(get-value ({}))", show_term(t)));
                let backend = parse_sexprs(&resp).ok().and_then(|s| s.first().cloned()).and_then(|s| s.list().and_then(|l| l.first().cloned())).and_then(|p| p.list().and_then(|l| l.get(1).cloned())).and_then(|x| parse_term(&x).ok());
                if let Some(Term::Lit(bv)) = backend {
                    if bv != v {
                        self.log(json!({"i": i, "cmd": text, "internal": format!("evaluator disagrees with backend: {} vs {}", v.show(), bv.show())}));
                        out("(error \"refsolver-internal: evaluator disagrees with the backend\")");
                        return;
                    }
                }
            }
            let s = self.spell(&v);
            logged.push(json!({"term": show_term(t), "value": v.show(), "spelling": s}));
            parts.push(format!("({} {})", show_term(t), s));
        }
        self.log(json!({"i": i, "cmd": text, "ok": true, "values": logged}));
        if self.fault_point("get-value") {
            return;
        }
        out(&format!("({})", parts.join(" ")));
    }

    fn unsat_assumptions(&mut self, text: &str) {
        if !self.supports("get-unsat-assumptions") {
            return self.reject(text, "persona: get-unsat-assumptions unsupported");
        }
        if self.last != Last::Unsat {
            return self.reject(text, "get-unsat-assumptions without a preceding unsat answer");
        }
        let all = self.last_assumptions.clone();
        let check = |z3: &mut Backend, subset: &[Term]| -> bool { z3.ask(&format!("(check-sat-assuming ({}))", subset.iter().map(show_term).collect::<Vec<_>>().join(" "))) == "unsat" };
        let mut core: Vec<Term> = match self.core_mode.as_str() {
            "full" => all.clone(),
            _ => {
                // deletion-based minimisation
                let mut cur = all.clone();
                let mut k = 0;
                while k < cur.len() {
                    let mut cand = cur.clone();
                    cand.remove(k);
                    if check(&mut self.z3, &cand) {
                        cur = cand;
                    } else {
                        k += 1;
                    }
                }
                // leave the backend in the unsat state of the original query
                let _ = check(&mut self.z3, &all);
                cur
            }
        };
        if self.core_mode == "random" {
            for a in &all {
                if !core.contains(a) && self.rng.flip() {
                    core.push(a.clone());
                }
            }
        }
        if self.core_mode != "ordered" {
            self.rng.shuffle(&mut core);
        }
        let i = self.cmd_index;
        self.log(json!({"i": i, "cmd": text, "ok": true, "core": core.len(), "of": all.len(), "mode": self.core_mode}));
        if self.fault_point("get-unsat-assumptions") {
            return;
        }
        out(&format!("({})", core.iter().map(show_term).collect::<Vec<_>>().join(" ")));
    }

    fn handle(&mut self, sx: &Sx) -> bool {
        self.cmd_index += 1;
        let text = sx.show();
        let cmd = match parse_cmd(sx) {
            Ok(c) => c,
            Err(m) => {
                self.reject(&text, &m);
                return true;
            }
        };
        let i = self.cmd_index;
        if !matches!(cmd, Cmd::CheckSat | Cmd::CheckSatAssuming(_) | Cmd::GetValue(_) | Cmd::GetUnsatAssumptions | Cmd::Exit) && self.command_fault_point(&text) {
            return true;
        }
        match cmd {
            Cmd::SetOption(..) | Cmd::SetInfo => self.log(json!({"i": i, "cmd": text, "ok": true})),
            Cmd::SetLogic(l) => {
                if !["ALL", "QF_AUFBV", "QF_ABV", "QF_BV", "QF_UFBV"].contains(&l.as_str()) {
                    self.reject(&text, &format!("unknown logic {l}"));
                } else {
                    self.log(json!({"i": i, "cmd": text, "ok": true}));
                }
            }
            Cmd::DeclareConst(name, sort) => match self.scope.declare(&name, sort.clone()) {
                Ok(()) => {
                    self.undo_diversification();
                    self.z3.send(&format!("(declare-const {} {})", show_symbol(&name), sort.show()));
                    self.log(json!({"i": i, "cmd": text, "ok": true, "declares": name}));
                }
                Err(m) => self.reject(&text, &m),
            },
            Cmd::DefineFun(name, sort, body) => {
                if !self.supports("as-const") && Self::uses_const_array(&body) {
                    return {
                        self.reject(&text, "persona: constant arrays (as const) unsupported");
                        true
                    };
                }
                match self.scope.define(&name, sort.clone(), body.clone()) {
                    Ok(()) => {
                        self.undo_diversification();
                        self.z3.send(&format!("(define-fun {} () {} {})", show_symbol(&name), sort.show(), show_term(&body)));
                        self.log(json!({"i": i, "cmd": text, "ok": true, "defines": name}));
                    }
                    Err(m) => self.reject(&text, &m),
                }
            }
            Cmd::Assert(t) => {
                if !self.supports("as-const") && Self::uses_const_array(&t) {
                    self.reject(&text, "persona: constant arrays (as const) unsupported");
                    return true;
                }
                match self.scope.sort_of(&t) {
                    Ok(Sort::Bool) => {
                        self.undo_diversification();
                        self.z3.send(&format!("(assert {})", show_term(&t)));
                        self.asserts.last_mut().unwrap().push(t);
                        self.log(json!({"i": i, "cmd": text, "ok": true}));
                    }
                    Ok(s) => self.reject(&text, &format!("ill-sorted: asserted term has sort {}", s.show())),
                    Err(m) => self.reject(&text, &m),
                }
            }
            Cmd::CheckSat => self.check(&text, vec![]),
            Cmd::CheckSatAssuming(ts) => {
                if !self.supports("check-sat-assuming") {
                    self.reject(&text, "persona: check-sat-assuming unsupported");
                } else {
                    self.check(&text, ts);
                }
            }
            Cmd::Push(n) => {
                self.undo_diversification();
                for _ in 0..n {
                    self.scope.push();
                    self.asserts.push(vec![]);
                }
                self.z3.send(&format!("(push {n})"));
                self.last = Last::None;
                self.log(json!({"i": i, "cmd": text, "ok": true}));
            }
            Cmd::Pop(n) => {
                if (n as usize) >= self.scope.levels.len() {
                    self.reject(&text, "pop below the first assertion level");
                } else {
                    self.undo_diversification();
                    for _ in 0..n {
                        let _ = self.scope.pop();
                        self.asserts.pop();
                    }
                    self.z3.send(&format!("(pop {n})"));
                    self.last = Last::None;
                    self.log(json!({"i": i, "cmd": text, "ok": true}));
                }
            }
            Cmd::GetValue(ts) => self.get_value(&text, ts),
            Cmd::GetUnsatAssumptions => self.unsat_assumptions(&text),
            Cmd::Exit => {
                self.log(json!({"i": i, "cmd": text, "ok": true}));
                self.z3.finish();
                return false;
            }
        }
        true
    }
}

/// scripted mode (C14/C15 direct tests): answers every response-bearing command with the next line of the script
fn scripted(path: &str) {
    let lines: Vec<String> = std::fs::read_to_string(path).unwrap_or_default().lines().map(|s| s.to_string()).collect();
    let mut k = 0;
    let stdin = std::io::stdin();
    let mut buf = String::new();
    for line in stdin.lock().lines() {
        let Ok(line) = line else { break };
        buf.push_str(&line);
        buf.push('\n');
        let Ok(sxs) = parse_sexprs(&buf) else { continue };
        buf.clear();
        for sx in sxs {
            let head = sx.list().and_then(|l| l.first()).and_then(|h| h.atom()).unwrap_or("").to_string();
            match head.as_str() {
                "check-sat" | "check-sat-assuming" | "get-value" | "get-unsat-assumptions" => {
                    let reply = lines.get(k).cloned().unwrap_or_else(|| "sat".into());
                    k += 1;
                    if reply == "<exit>" {
                        std::process::exit(0);
                    }
                    if let Some(r) = reply.strip_prefix("<raw-no-newline>") {
                        let mut o = std::io::stdout().lock();
                        let _ = write!(o, "{r}");
                        let _ = o.flush();
                        drop(o);
                        std::process::exit(0);
                    }
                    out(&reply);
                }
                "exit" => return,
                _ => {}
            }
        }
    }
}

fn main() {
    let argv0 = std::env::args().next().unwrap_or_default();
    let persona = std::path::Path::new(&argv0).file_name().map(|s| s.to_string_lossy().to_string()).unwrap_or_default();
    if let Ok(script) = std::env::var("REFSOLVER_SCRIPT") {
        scripted(&script);
        return;
    }
    // a small pipe between client and solver: the client cannot run far ahead of what the solver has read, so a
    // solver that dies at some command really is gone when the client writes the following ones
    if let Some(sz) = std::env::var("REFSOLVER_PIPE_SZ").ok().and_then(|s| s.parse::<i32>().ok()) {
        unsafe { libc::fcntl(0, libc::F_SETPIPE_SZ, sz) };
    }
    let seed: u64 = std::env::var("REFSOLVER_SEED").ok().and_then(|s| s.parse().ok()).unwrap_or(1);
    let timeout_ms: u64 = std::env::var("REFSOLVER_Z3_TIMEOUT_MS").ok().and_then(|s| s.parse().ok()).unwrap_or(20_000);
    let log = std::env::var("REFSOLVER_LOG").ok().and_then(|p| std::fs::OpenOptions::new().create(true).append(true).open(p).ok());
    let fault = std::env::var("REFSOLVER_FAULT").ok().and_then(|f| {
        let (k, n) = f.rsplit_once('@')?;
        Some((k.to_string(), n.parse().ok()?))
    });
    let mut s = Solver {
        persona: persona.clone(),
        scope: Scope::new(),
        asserts: vec![vec![]],
        z3: Backend::start(seed, timeout_ms),
        rng: Rng::new(seed),
        log,
        cmd_index: 0,
        last: Last::None,
        last_assumptions: vec![],
        core_mode: std::env::var("REFSOLVER_CORE").unwrap_or_else(|_| "minimal".into()),
        diversify: std::env::var("REFSOLVER_DIVERSIFY").ok().and_then(|s| s.parse().ok()).unwrap_or(0),
        model_validated: false,
        model_is_bogus: false,
        max_checks: std::env::var("REFSOLVER_MAX_CHECKS").ok().and_then(|s| s.parse().ok()),
        nchecks: 0,
        pushed_for_diversification: 0,
        fault,
        cmd_fault: std::env::var("REFSOLVER_CMD_FAULT").ok().and_then(|f| {
            let (k, n) = f.rsplit_once('@')?;
            Some((k.to_string(), n.parse().ok()?))
        }),
        counter_file: std::env::var("REFSOLVER_COUNTER").ok(),
    };
    s.log(json!({"session": persona, "seed": seed}));
    // session boundary in the command/response sequence (a restart() of the client starts a new solver process)
    if let Some(f) = s.counter_file.clone() {
        if let Ok(mut k) = std::fs::OpenOptions::new().create(true).append(true).open(format!("{f}.seq")) {
            let _ = write!(k, "S ");
        }
    }
    let stdin = std::io::stdin();
    let mut buf = String::new();
    for line in stdin.lock().lines() {
        let Ok(line) = line else { break };
        buf.push_str(&line);
        buf.push('\n');
        match parse_sexprs(&buf) {
            Ok(sxs) => {
                buf.clear();
                for sx in sxs {
                    if !s.handle(&sx) {
                        return;
                    }
                }
            }
            Err(LexError::Incomplete) => continue,
            Err(LexError::Syntax(m)) => {
                buf.clear();
                s.cmd_index += 1;
                s.reject("<unparsable>", &format!("syntax: {m}"));
            }
        }
    }
    s.z3.finish();
}

fn main() {
    eprintln!("refsolver: not built yet");
    std::process::exit(2);
}

pub mod checks;
pub mod wl;
pub mod refsem;
pub mod runner;
pub mod util;

//! small deterministic PRNG, hashing and panic capture

use num_bigint::BigUint;
use std::cell::RefCell;

#[derive(Clone, Debug)]
pub struct Rng(pub u64);

pub fn splitmix(x: u64) -> u64 {
    let mut z = x.wrapping_add(0x9E3779B97F4A7C15);
    z = (z ^ (z >> 30)).wrapping_mul(0xBF58476D1CE4E5B9);
    z = (z ^ (z >> 27)).wrapping_mul(0x94D049BB133111EB);
    z ^ (z >> 31)
}

pub fn mix(parts: &[u64]) -> u64 {
    let mut h = 0x243F6A8885A308D3u64;
    for p in parts {
        h = splitmix(h ^ *p);
    }
    h
}

pub fn hash_str(s: &str) -> u64 {
    // FNV-1a then splitmix
    let mut h = 0xcbf29ce484222325u64;
    for b in s.as_bytes() {
        h ^= *b as u64;
        h = h.wrapping_mul(0x100000001b3);
    }
    splitmix(h)
}

impl Rng {
    pub fn new(seed: u64) -> Rng {
        Rng(splitmix(seed ^ 0xD1B54A32D192ED03))
    }
    pub fn next(&mut self) -> u64 {
        self.0 = self.0.wrapping_add(0x9E3779B97F4A7C15);
        let mut z = self.0;
        z = (z ^ (z >> 30)).wrapping_mul(0xBF58476D1CE4E5B9);
        z = (z ^ (z >> 27)).wrapping_mul(0x94D049BB133111EB);
        z ^ (z >> 31)
    }
    /// uniform in 0..n (n > 0)
    pub fn below(&mut self, n: u64) -> u64 {
        debug_assert!(n > 0);
        ((self.next() as u128 * n as u128) >> 64) as u64
    }
    pub fn range(&mut self, lo: u64, hi_incl: u64) -> u64 {
        lo + self.below(hi_incl - lo + 1)
    }
    pub fn usize(&mut self, n: usize) -> usize {
        self.below(n as u64) as usize
    }
    pub fn chance(&mut self, num: u64, den: u64) -> bool {
        self.below(den) < num
    }
    pub fn flip(&mut self) -> bool {
        self.next() & 1 == 1
    }
    pub fn pick<'a, T>(&mut self, xs: &'a [T]) -> &'a T {
        &xs[self.usize(xs.len())]
    }
    pub fn shuffle<T>(&mut self, xs: &mut [T]) {
        for i in (1..xs.len()).rev() {
            let j = self.usize(i + 1);
            xs.swap(i, j);
        }
    }
    pub fn big(&mut self, bits: u32) -> BigUint {
        let n = bits.div_ceil(64) as usize;
        let mut bytes = Vec::with_capacity(n * 8);
        for _ in 0..n {
            bytes.extend_from_slice(&self.next().to_le_bytes());
        }
        let v = BigUint::from_bytes_le(&bytes);
        v & crate::refsem::bv::mask(bits)
    }
}

// ---------------------------------------------------------------- panic capture

thread_local! {
    static LAST_PANIC: RefCell<Option<PanicInfo>> = const { RefCell::new(None) };
}

#[derive(Clone, Debug)]
pub struct PanicInfo {
    pub file: String,
    pub line: u32,
    pub msg: String,
}

impl PanicInfo {
    pub fn loc(&self) -> String {
        format!("{}:{}", short_path(&self.file), self.line)
    }
    pub fn in_harness(&self) -> bool {
        self.file.contains("/verif/harness/") || self.file.starts_with("src/")
    }
}

/// strip registry / repo prefixes so that signatures are stable across machines
pub fn short_path(p: &str) -> String {
    if let Some(i) = p.find("/registry/src/") {
        let rest = &p[i + "/registry/src/".len()..];
        if let Some(j) = rest.find('/') {
            return rest[j + 1..].to_string();
        }
    }
    if let Some(rest) = p.strip_prefix("/repo/") {
        return rest.to_string();
    }
    if let Some(i) = p.find("/library/") {
        return format!("rust{}", &p[i..]);
    }
    p.to_string()
}

pub fn install_panic_hook() {
    std::panic::set_hook(Box::new(|info| {
        let (file, line) = info
            .location()
            .map(|l| (l.file().to_string(), l.line()))
            .unwrap_or_else(|| ("?".into(), 0));
        let msg = if let Some(s) = info.payload().downcast_ref::<&str>() {
            s.to_string()
        } else if let Some(s) = info.payload().downcast_ref::<String>() {
            s.clone()
        } else {
            "<non-string panic>".to_string()
        };
        LAST_PANIC.with(|p| *p.borrow_mut() = Some(PanicInfo { file, line, msg }));
    }));
}

/// run f; Err(panic info) if it panicked
pub fn catch<T>(f: impl FnOnce() -> T) -> Result<T, PanicInfo> {
    LAST_PANIC.with(|p| *p.borrow_mut() = None);
    match std::panic::catch_unwind(std::panic::AssertUnwindSafe(f)) {
        Ok(v) => Ok(v),
        Err(_) => Err(LAST_PANIC.with(|p| p.borrow_mut().take()).unwrap_or(PanicInfo {
            file: "?".into(),
            line: 0,
            msg: "panic without info".into(),
        })),
    }
}

pub fn trunc(s: &str, n: usize) -> String {
    if s.len() <= n {
        s.to_string()
    } else {
        let mut end = n;
        while !s.is_char_boundary(end) {
            end -= 1;
        }
        format!("{}…[{} bytes]", &s[..end], s.len())
    }
}

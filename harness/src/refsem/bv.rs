//! R1: reference bit-vector / array semantics, written from SMT-LIB 2.6
//! (FixedSizeBitVectors, ArraysEx). Big integers only; never calls patronus or baa.

use num_bigint::BigUint;
use num_traits::{One, Zero};
use std::collections::BTreeMap;

#[derive(Clone, Debug, PartialEq, Eq, Hash, PartialOrd, Ord)]
pub struct Bv {
    pub w: u32,
    pub v: BigUint,
}

pub fn pow2(n: u32) -> BigUint {
    BigUint::one() << (n as usize)
}

pub fn mask(n: u32) -> BigUint {
    pow2(n) - BigUint::one()
}

impl Bv {
    pub fn new(w: u32, v: BigUint) -> Bv {
        debug_assert!(w > 0);
        let v = if v.bits() > w as u64 { v & mask(w) } else { v };
        Bv { w, v }
    }
    pub fn from_u64(w: u32, v: u64) -> Bv {
        Bv::new(w, BigUint::from(v))
    }
    pub fn zero(w: u32) -> Bv {
        Bv { w, v: BigUint::zero() }
    }
    pub fn one(w: u32) -> Bv {
        Bv::new(w, BigUint::one())
    }
    pub fn ones(w: u32) -> Bv {
        Bv { w, v: mask(w) }
    }
    pub fn from_bool(b: bool) -> Bv {
        Bv::from_u64(1, b as u64)
    }
    pub fn is_true(&self) -> bool {
        self.w == 1 && self.v.is_one()
    }
    pub fn is_zero(&self) -> bool {
        self.v.is_zero()
    }
    pub fn bit(&self, i: u32) -> bool {
        self.v.bit(i as u64)
    }
    pub fn msb(&self) -> bool {
        self.bit(self.w - 1)
    }
    pub fn to_u64(&self) -> Option<u64> {
        if self.v.bits() <= 64 {
            Some(self.v.iter_u64_digits().next().unwrap_or(0))
        } else {
            None
        }
    }
    pub fn bit_str(&self) -> String {
        let mut s = String::with_capacity(self.w as usize);
        for i in (0..self.w).rev() {
            s.push(if self.bit(i) { '1' } else { '0' });
        }
        s
    }
    pub fn parse_bit_str(s: &str) -> Option<Bv> {
        if s.is_empty() {
            return None;
        }
        let v = BigUint::parse_bytes(s.as_bytes(), 2)?;
        Some(Bv::new(s.len() as u32, v))
    }
    pub fn show(&self) -> String {
        format!("{}'x{}", self.w, self.v.to_str_radix(16))
    }

    // ---- bit-wise
    pub fn not(&self) -> Bv {
        Bv { w: self.w, v: mask(self.w) ^ &self.v }
    }
    pub fn and(&self, o: &Bv) -> Bv {
        assert_eq!(self.w, o.w);
        Bv { w: self.w, v: &self.v & &o.v }
    }
    pub fn or(&self, o: &Bv) -> Bv {
        assert_eq!(self.w, o.w);
        Bv { w: self.w, v: &self.v | &o.v }
    }
    pub fn xor(&self, o: &Bv) -> Bv {
        assert_eq!(self.w, o.w);
        Bv { w: self.w, v: &self.v ^ &o.v }
    }
    // ---- arithmetic (mod 2^w)
    pub fn neg(&self) -> Bv {
        if self.v.is_zero() { self.clone() } else { Bv { w: self.w, v: pow2(self.w) - &self.v } }
    }
    pub fn add(&self, o: &Bv) -> Bv {
        assert_eq!(self.w, o.w);
        Bv::new(self.w, &self.v + &o.v)
    }
    pub fn sub(&self, o: &Bv) -> Bv {
        assert_eq!(self.w, o.w);
        Bv::new(self.w, pow2(self.w) + &self.v - &o.v)
    }
    pub fn mul(&self, o: &Bv) -> Bv {
        assert_eq!(self.w, o.w);
        Bv::new(self.w, &self.v * &o.v)
    }
    /// bvudiv: division by zero yields all ones
    pub fn udiv(&self, o: &Bv) -> Bv {
        assert_eq!(self.w, o.w);
        if o.v.is_zero() { Bv::ones(self.w) } else { Bv::new(self.w, &self.v / &o.v) }
    }
    /// bvurem: remainder by zero yields the dividend
    pub fn urem(&self, o: &Bv) -> Bv {
        assert_eq!(self.w, o.w);
        if o.v.is_zero() { self.clone() } else { Bv::new(self.w, &self.v % &o.v) }
    }
    /// bvsdiv per SMT-LIB definition (sign case analysis over bvudiv)
    pub fn sdiv(&self, o: &Bv) -> Bv {
        match (self.msb(), o.msb()) {
            (false, false) => self.udiv(o),
            (true, false) => self.neg().udiv(o).neg(),
            (false, true) => self.udiv(&o.neg()).neg(),
            (true, true) => self.neg().udiv(&o.neg()),
        }
    }
    /// bvsrem: sign follows dividend
    pub fn srem(&self, o: &Bv) -> Bv {
        match (self.msb(), o.msb()) {
            (false, false) => self.urem(o),
            (true, false) => self.neg().urem(o).neg(),
            (false, true) => self.urem(&o.neg()),
            (true, true) => self.neg().urem(&o.neg()).neg(),
        }
    }
    /// bvsmod: sign follows divisor
    pub fn smod(&self, o: &Bv) -> Bv {
        let abs_s = if self.msb() { self.neg() } else { self.clone() };
        let abs_t = if o.msb() { o.neg() } else { o.clone() };
        let u = abs_s.urem(&abs_t);
        if u.v.is_zero() {
            u
        } else {
            match (self.msb(), o.msb()) {
                (false, false) => u,
                (true, false) => u.neg().add(o),
                (false, true) => u.add(o),
                (true, true) => u.neg(),
            }
        }
    }
    // ---- shifts; amount is the full unsigned value of `o`
    pub fn shl(&self, o: &Bv) -> Bv {
        assert_eq!(self.w, o.w);
        match o.to_u64() {
            Some(n) if n < self.w as u64 => Bv::new(self.w, &self.v << (n as usize)),
            _ => Bv::zero(self.w),
        }
    }
    pub fn lshr(&self, o: &Bv) -> Bv {
        assert_eq!(self.w, o.w);
        match o.to_u64() {
            Some(n) if n < self.w as u64 => Bv::new(self.w, &self.v >> (n as usize)),
            _ => Bv::zero(self.w),
        }
    }
    pub fn ashr(&self, o: &Bv) -> Bv {
        assert_eq!(self.w, o.w);
        let neg = self.msb();
        match o.to_u64() {
            Some(n) if n < self.w as u64 => {
                let n = n as u32;
                let shifted = &self.v >> (n as usize);
                if neg && n > 0 {
                    // fill the top n bits with ones
                    let fill = mask(n) << ((self.w - n) as usize);
                    Bv::new(self.w, shifted | fill)
                } else {
                    Bv::new(self.w, shifted)
                }
            }
            _ => {
                if neg { Bv::ones(self.w) } else { Bv::zero(self.w) }
            }
        }
    }
    // ---- comparisons
    pub fn ugt(&self, o: &Bv) -> bool {
        assert_eq!(self.w, o.w);
        self.v > o.v
    }
    pub fn uge(&self, o: &Bv) -> bool {
        assert_eq!(self.w, o.w);
        self.v >= o.v
    }
    fn signed_key(&self) -> (bool, &BigUint) {
        // two's complement order: negative numbers first; within a sign, unsigned order
        (!self.msb(), &self.v)
    }
    pub fn sgt(&self, o: &Bv) -> bool {
        assert_eq!(self.w, o.w);
        self.signed_key() > o.signed_key()
    }
    pub fn sge(&self, o: &Bv) -> bool {
        assert_eq!(self.w, o.w);
        self.signed_key() >= o.signed_key()
    }
    // ---- structure
    pub fn concat(&self, lo: &Bv) -> Bv {
        Bv { w: self.w + lo.w, v: (&self.v << (lo.w as usize)) | &lo.v }
    }
    pub fn extract(&self, hi: u32, lo: u32) -> Bv {
        assert!(hi >= lo && hi < self.w, "extract [{hi}:{lo}] of width {}", self.w);
        Bv::new(hi - lo + 1, &self.v >> (lo as usize))
    }
    pub fn zext(&self, by: u32) -> Bv {
        Bv { w: self.w + by, v: self.v.clone() }
    }
    pub fn sext(&self, by: u32) -> Bv {
        if self.msb() && by > 0 {
            Bv { w: self.w + by, v: &self.v | (mask(by) << (self.w as usize)) }
        } else {
            self.zext(by)
        }
    }
}

/// Extensional array value: total function index -> data given as default + exceptions.
#[derive(Clone, Debug)]
pub struct ArrV {
    pub iw: u32,
    pub dw: u32,
    pub default: BigUint,
    pub map: BTreeMap<BigUint, BigUint>,
}

impl ArrV {
    pub fn constant(iw: u32, d: &Bv) -> ArrV {
        ArrV { iw, dw: d.w, default: d.v.clone(), map: BTreeMap::new() }
    }
    pub fn select(&self, i: &Bv) -> Bv {
        assert_eq!(i.w, self.iw, "array index width");
        Bv { w: self.dw, v: self.map.get(&i.v).cloned().unwrap_or_else(|| self.default.clone()) }
    }
    pub fn store(&self, i: &Bv, d: &Bv) -> ArrV {
        assert_eq!(i.w, self.iw, "array index width");
        assert_eq!(d.w, self.dw, "array data width");
        let mut r = self.clone();
        r.map.insert(i.v.clone(), d.v.clone());
        r
    }
    /// number of indices that carry a non-default value
    fn normalized(&self) -> BTreeMap<&BigUint, &BigUint> {
        self.map.iter().filter(|(_, v)| **v != self.default).collect()
    }
    /// extensional equality over the whole index space
    pub fn ext_eq(&self, o: &ArrV) -> bool {
        assert_eq!((self.iw, self.dw), (o.iw, o.dw));
        // every index explicitly mentioned on either side must agree
        for k in self.map.keys().chain(o.map.keys()) {
            let a = self.map.get(k).unwrap_or(&self.default);
            let b = o.map.get(k).unwrap_or(&o.default);
            if a != b {
                return false;
            }
        }
        if self.default == o.default {
            return true;
        }
        // defaults differ: equal only if no unmentioned index exists
        let mentioned: std::collections::BTreeSet<&BigUint> =
            self.map.keys().chain(o.map.keys()).collect();
        BigUint::from(mentioned.len()) == pow2(self.iw)
    }
    pub fn show(&self) -> String {
        let n = self.normalized();
        let mut s = format!("[{}->{}] default=x{}", self.iw, self.dw, self.default.to_str_radix(16));
        for (k, v) in n.iter().take(8) {
            s.push_str(&format!(" {}:x{}", k.to_str_radix(16), v.to_str_radix(16)));
        }
        if n.len() > 8 {
            s.push_str(" ...");
        }
        s
    }
}

impl PartialEq for ArrV {
    fn eq(&self, o: &ArrV) -> bool {
        self.iw == o.iw && self.dw == o.dw && self.ext_eq(o)
    }
}
impl Eq for ArrV {}

#[derive(Clone, Debug, PartialEq, Eq)]
pub enum Val {
    B(Bv),
    A(ArrV),
}

impl Val {
    pub fn bv(&self) -> &Bv {
        match self {
            Val::B(b) => b,
            Val::A(_) => panic!("refsem: expected bit-vector value"),
        }
    }
    pub fn arr(&self) -> &ArrV {
        match self {
            Val::A(a) => a,
            Val::B(_) => panic!("refsem: expected array value"),
        }
    }
    pub fn show(&self) -> String {
        match self {
            Val::B(b) => b.show(),
            Val::A(a) => a.show(),
        }
    }
}

#[cfg(test)]
mod tests {
    use super::*;
    fn b(w: u32, v: u64) -> Bv {
        Bv::from_u64(w, v)
    }
    #[test]
    fn smtlib_div_examples() {
        assert_eq!(b(4, 7).udiv(&b(4, 0)), b(4, 15));
        assert_eq!(b(4, 7).urem(&b(4, 0)), b(4, 7));
        // -7 / 2 = -3 ; -7 rem 2 = -1 ; -7 mod 2 = 1
        assert_eq!(b(4, 9).sdiv(&b(4, 2)), b(4, 13));
        assert_eq!(b(4, 9).srem(&b(4, 2)), b(4, 15));
        assert_eq!(b(4, 9).smod(&b(4, 2)), b(4, 1));
        // 7 mod -2 = -1
        assert_eq!(b(4, 7).smod(&b(4, 14)), b(4, 15));
        assert_eq!(b(4, 9).ashr(&b(4, 1)), b(4, 12));
        assert_eq!(b(4, 9).ashr(&b(4, 9)), b(4, 15));
        assert!(b(4, 1).sgt(&b(4, 15)));
        assert!(!b(4, 8).sge(&b(4, 7)));
        assert_eq!(b(3, 5).sext(2), b(5, 29));
        assert_eq!(b(3, 5).concat(&b(2, 1)), b(5, 21));
        assert_eq!(b(5, 21).extract(3, 1), b(3, 2));
    }
    #[test]
    fn array_ext() {
        let a = ArrV::constant(1, &b(2, 0));
        let c = ArrV::constant(1, &b(2, 1));
        assert!(!a.ext_eq(&c));
        let a2 = a.store(&b(1, 0), &b(2, 1)).store(&b(1, 1), &b(2, 1));
        assert!(a2.ext_eq(&c));
    }
}

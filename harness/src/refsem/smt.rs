//! R6: strict SMT-LIB 2 front end (lexer, s-expressions, sorts, scoping) and term evaluator,
//! written from the SMT-LIB 2.6 standard; values computed with R1.

use super::bv::{Bv, mask};
use num_bigint::BigUint;
use num_traits::{One, Zero};
use std::collections::{BTreeMap, HashMap};

// ------------------------------------------------------------------------------------------------
// s-expressions

#[derive(Clone, Debug, PartialEq, Eq)]
pub enum Sx {
    /// simple symbol, keyword, numeral, #b.. / #x.. literal (verbatim)
    Atom(String),
    /// |quoted symbol| (content without the bars)
    Quoted(String),
    /// "string literal" (content, with "" unescaped)
    Str(String),
    List(Vec<Sx>),
}

impl Sx {
    pub fn atom(&self) -> Option<&str> {
        match self {
            Sx::Atom(s) => Some(s),
            _ => None,
        }
    }
    /// symbol name (simple or quoted)
    pub fn sym(&self) -> Option<&str> {
        match self {
            Sx::Atom(s) if is_simple_symbol(s) => Some(s),
            Sx::Quoted(s) => Some(s),
            _ => None,
        }
    }
    pub fn list(&self) -> Option<&[Sx]> {
        match self {
            Sx::List(v) => Some(v),
            _ => None,
        }
    }
    pub fn show(&self) -> String {
        match self {
            Sx::Atom(s) => s.clone(),
            Sx::Quoted(s) => format!("|{s}|"),
            Sx::Str(s) => format!("\"{}\"", s.replace('"', "\"\"")),
            Sx::List(v) => format!("({})", v.iter().map(|x| x.show()).collect::<Vec<_>>().join(" ")),
        }
    }
}

pub fn is_simple_symbol(s: &str) -> bool {
    if s.is_empty() || s.as_bytes()[0].is_ascii_digit() || s.starts_with('#') || s.starts_with(':') {
        return false;
    }
    s.bytes().all(|c| c.is_ascii_alphanumeric() || b"~!@$%^&*_-+=<>.?/".contains(&c))
}

#[derive(Debug, Clone, PartialEq, Eq)]
pub enum LexError {
    /// input ended inside a list / quoted symbol / string
    Incomplete,
    Syntax(String),
}

/// Parses all complete top-level s-expressions of `text`.
pub fn parse_sexprs(text: &str) -> Result<Vec<Sx>, LexError> {
    let b = text.as_bytes();
    let mut i = 0usize;
    let mut stack: Vec<Vec<Sx>> = vec![];
    let mut out: Vec<Sx> = vec![];
    let push = |stack: &mut Vec<Vec<Sx>>, out: &mut Vec<Sx>, x: Sx| {
        if let Some(top) = stack.last_mut() {
            top.push(x);
        } else {
            out.push(x);
        }
    };
    while i < b.len() {
        let c = b[i];
        match c {
            b' ' | b'\t' | b'\n' | b'\r' => i += 1,
            b';' => {
                while i < b.len() && b[i] != b'\n' {
                    i += 1;
                }
            }
            b'(' => {
                stack.push(vec![]);
                i += 1;
            }
            b')' => {
                let Some(l) = stack.pop() else {
                    return Err(LexError::Syntax("unbalanced `)`".into()));
                };
                push(&mut stack, &mut out, Sx::List(l));
                i += 1;
            }
            b'|' => {
                let start = i + 1;
                let mut j = start;
                while j < b.len() && b[j] != b'|' {
                    if b[j] == b'\\' {
                        return Err(LexError::Syntax("backslash in quoted symbol".into()));
                    }
                    j += 1;
                }
                if j >= b.len() {
                    return Err(LexError::Incomplete);
                }
                push(&mut stack, &mut out, Sx::Quoted(text[start..j].to_string()));
                i = j + 1;
            }
            b'"' => {
                let mut j = i + 1;
                let mut s = String::new();
                loop {
                    if j >= b.len() {
                        return Err(LexError::Incomplete);
                    }
                    if b[j] == b'"' {
                        if j + 1 < b.len() && b[j + 1] == b'"' {
                            s.push('"');
                            j += 2;
                            continue;
                        }
                        break;
                    }
                    // copy one (possibly multi-byte) character
                    let ch = text[j..].chars().next().unwrap();
                    s.push(ch);
                    j += ch.len_utf8();
                }
                push(&mut stack, &mut out, Sx::Str(s));
                i = j + 1;
            }
            _ => {
                let start = i;
                while i < b.len() && !b" \t\n\r();|\"".contains(&b[i]) {
                    i += 1;
                }
                let tok = &text[start..i];
                if !tok.is_ascii() {
                    return Err(LexError::Syntax(format!("non-ASCII character in token `{tok}`")));
                }
                push(&mut stack, &mut out, Sx::Atom(tok.to_string()));
            }
        }
    }
    if !stack.is_empty() {
        return Err(LexError::Incomplete);
    }
    Ok(out)
}

// ------------------------------------------------------------------------------------------------
// sorts, values, terms

#[derive(Clone, Debug, PartialEq, Eq, Hash)]
pub enum Sort {
    Bool,
    Bv(u32),
    Arr(Box<Sort>, Box<Sort>),
}

impl Sort {
    pub fn show(&self) -> String {
        match self {
            Sort::Bool => "Bool".into(),
            Sort::Bv(w) => format!("(_ BitVec {w})"),
            Sort::Arr(i, e) => format!("(Array {} {})", i.show(), e.show()),
        }
    }
    pub fn scalar_bits(&self) -> Option<u32> {
        match self {
            Sort::Bool => Some(1),
            Sort::Bv(w) => Some(*w),
            Sort::Arr(..) => None,
        }
    }
}

#[derive(Clone, Debug, PartialEq, Eq)]
pub enum SVal {
    Bool(bool),
    Bv(Bv),
    /// scalar-indexed, scalar-valued array: keys/values stored as numbers, sorts kept apart
    Arr { isort: Sort, esort: Sort, default: BigUint, map: BTreeMap<BigUint, BigUint> },
}

impl SVal {
    pub fn sort(&self) -> Sort {
        match self {
            SVal::Bool(_) => Sort::Bool,
            SVal::Bv(b) => Sort::Bv(b.w),
            SVal::Arr { isort, esort, .. } => Sort::Arr(Box::new(isort.clone()), Box::new(esort.clone())),
        }
    }
    pub fn num(&self) -> BigUint {
        match self {
            SVal::Bool(b) => BigUint::from(*b as u32),
            SVal::Bv(b) => b.v.clone(),
            SVal::Arr { .. } => panic!("array has no number"),
        }
    }
    pub fn from_num(s: &Sort, n: BigUint) -> SVal {
        match s {
            Sort::Bool => SVal::Bool(!n.is_zero()),
            Sort::Bv(w) => SVal::Bv(Bv::new(*w, n)),
            Sort::Arr(..) => panic!("array from number"),
        }
    }
    pub fn as_bool(&self) -> bool {
        match self {
            SVal::Bool(b) => *b,
            _ => panic!("expected Bool"),
        }
    }
    pub fn as_bv(&self) -> &Bv {
        match self {
            SVal::Bv(b) => b,
            _ => panic!("expected bit-vector"),
        }
    }
    /// extensional equality (arrays over the whole index space)
    pub fn same(&self, o: &SVal) -> bool {
        match (self, o) {
            (SVal::Arr { isort, default: d1, map: m1, .. }, SVal::Arr { default: d2, map: m2, .. }) => {
                for k in m1.keys().chain(m2.keys()) {
                    if m1.get(k).unwrap_or(d1) != m2.get(k).unwrap_or(d2) {
                        return false;
                    }
                }
                if d1 == d2 {
                    return true;
                }
                let mentioned: std::collections::BTreeSet<&BigUint> = m1.keys().chain(m2.keys()).collect();
                BigUint::from(mentioned.len()) == (BigUint::one() << isort.scalar_bits().unwrap() as usize)
            }
            (a, b) => a == b,
        }
    }
    /// standard spelling
    pub fn show(&self) -> String {
        match self {
            SVal::Bool(b) => b.to_string(),
            SVal::Bv(b) => format!("#b{}", b.bit_str()),
            SVal::Arr { isort, esort, default, map } => {
                let mut s = format!("((as const {}) {})", self.sort().show(), SVal::from_num(esort, default.clone()).show());
                for (k, v) in map {
                    if v != default {
                        s = format!("(store {} {} {})", s, SVal::from_num(isort, k.clone()).show(), SVal::from_num(esort, v.clone()).show());
                    }
                }
                s
            }
        }
    }
}

#[derive(Clone, Debug, PartialEq, Eq, Hash)]
pub enum Op {
    Not,
    And,
    Or,
    Xor,
    Implies,
    Eq,
    Distinct,
    Ite,
    BvNot,
    BvNeg,
    BvAnd,
    BvOr,
    BvXor,
    BvAdd,
    BvSub,
    BvMul,
    BvUdiv,
    BvUrem,
    BvSdiv,
    BvSrem,
    BvSmod,
    BvShl,
    BvLshr,
    BvAshr,
    BvUlt,
    BvUle,
    BvUgt,
    BvUge,
    BvSlt,
    BvSle,
    BvSgt,
    BvSge,
    Concat,
    Extract(u32, u32),
    ZeroExt(u32),
    SignExt(u32),
    Select,
    Store,
    ConstArray(Sort),
}

#[derive(Clone, Debug, PartialEq, Eq)]
pub enum Term {
    Lit(SVal),
    Sym(String),
    App(Op, Vec<Term>),
    Let(Vec<(String, Term)>, Box<Term>),
}

pub const RESERVED: &[&str] = &[
    "!", "_", "as", "BINARY", "DECIMAL", "exists", "HEXADECIMAL", "forall", "let", "match", "NUMERAL", "par", "STRING", "assert", "check-sat", "check-sat-assuming", "declare-const", "declare-datatype",
    "declare-datatypes", "declare-fun", "declare-sort", "define-fun", "define-fun-rec", "define-sort", "echo", "exit", "get-assertions", "get-assignment", "get-info", "get-model", "get-option", "get-proof",
    "get-unsat-assumptions", "get-unsat-core", "get-value", "pop", "push", "reset", "reset-assertions", "set-info", "set-logic", "set-option",
];

pub const THEORY_SYMBOLS: &[&str] = &[
    "true", "false", "not", "and", "or", "xor", "=>", "=", "distinct", "ite", "bvnot", "bvneg", "bvand", "bvor", "bvxor", "bvadd", "bvsub", "bvmul", "bvudiv", "bvurem", "bvsdiv", "bvsrem", "bvsmod", "bvshl",
    "bvlshr", "bvashr", "bvult", "bvule", "bvugt", "bvuge", "bvslt", "bvsle", "bvsgt", "bvsge", "concat", "select", "store", "extract", "zero_extend", "sign_extend", "const", "Bool", "BitVec", "Array", "bvnand",
    "bvnor", "bvxnor", "bvcomp", "repeat", "rotate_left", "rotate_right",
];

pub fn parse_sort(s: &Sx) -> Result<Sort, String> {
    match s {
        Sx::Atom(a) if a == "Bool" => Ok(Sort::Bool),
        Sx::List(v) => {
            let h: Vec<Option<&str>> = v.iter().map(|x| x.atom()).collect();
            match h.as_slice() {
                [Some("_"), Some("BitVec"), Some(n)] => {
                    let w: u32 = n.parse().map_err(|_| format!("bad width {n}"))?;
                    if w == 0 {
                        return Err("zero-width bit-vector sort".into());
                    }
                    if n.len() > 1 && n.starts_with('0') {
                        return Err(format!("numeral with leading zero: {n}"));
                    }
                    Ok(Sort::Bv(w))
                }
                [Some("Array"), _, _] => {
                    let i = parse_sort(&v[1])?;
                    let e = parse_sort(&v[2])?;
                    if matches!(i, Sort::Arr(..)) || matches!(e, Sort::Arr(..)) {
                        return Err("nested array sorts are outside the fragment".into());
                    }
                    Ok(Sort::Arr(Box::new(i), Box::new(e)))
                }
                _ => Err(format!("unknown sort {}", s.show())),
            }
        }
        _ => Err(format!("unknown sort {}", s.show())),
    }
}

fn parse_literal(a: &str) -> Option<Result<SVal, String>> {
    if let Some(bits) = a.strip_prefix("#b") {
        if bits.is_empty() || !bits.bytes().all(|c| c == b'0' || c == b'1') {
            return Some(Err(format!("bad binary literal {a}")));
        }
        return Some(Ok(SVal::Bv(Bv::new(bits.len() as u32, BigUint::parse_bytes(bits.as_bytes(), 2).unwrap()))));
    }
    if let Some(hex) = a.strip_prefix("#x") {
        if hex.is_empty() || !hex.bytes().all(|c| c.is_ascii_hexdigit()) {
            return Some(Err(format!("bad hex literal {a}")));
        }
        return Some(Ok(SVal::Bv(Bv::new(hex.len() as u32 * 4, BigUint::parse_bytes(hex.as_bytes(), 16).unwrap()))));
    }
    match a {
        "true" => Some(Ok(SVal::Bool(true))),
        "false" => Some(Ok(SVal::Bool(false))),
        _ => None,
    }
}

fn num(s: &Sx) -> Result<u32, String> {
    let a = s.atom().ok_or_else(|| format!("expected numeral, got {}", s.show()))?;
    if a.is_empty() || !a.bytes().all(|c| c.is_ascii_digit()) || (a.len() > 1 && a.starts_with('0')) {
        return Err(format!("bad numeral {a}"));
    }
    a.parse().map_err(|_| format!("numeral out of range {a}"))
}

/// s-expression -> term (syntax only; sorts are checked by `Scope::sort_of`)
pub fn parse_term(s: &Sx) -> Result<Term, String> {
    match s {
        Sx::Atom(a) => {
            if let Some(l) = parse_literal(a) {
                return l.map(Term::Lit);
            }
            if a.starts_with('#') {
                return Err(format!("bad literal {a}"));
            }
            if !is_simple_symbol(a) {
                return Err(format!("`{a}` is not a term"));
            }
            if RESERVED.contains(&a.as_str()) {
                return Err(format!("reserved word `{a}` used as a term"));
            }
            Ok(Term::Sym(a.clone()))
        }
        Sx::Quoted(q) => Ok(Term::Sym(q.clone())),
        Sx::Str(_) => Err("string literal is not a term here".into()),
        Sx::List(v) => {
            if v.is_empty() {
                return Err("empty application".into());
            }
            // (_ bvN w)
            if v.len() == 3 && v[0].atom() == Some("_") {
                if let Some(n) = v[1].atom().and_then(|a| a.strip_prefix("bv")) {
                    let w = num(&v[2])?;
                    let val = BigUint::parse_bytes(n.as_bytes(), 10).ok_or("bad (_ bvN w)")?;
                    if w == 0 || val.bits() > w as u64 {
                        return Err("(_ bvN w) does not fit".into());
                    }
                    return Ok(Term::Lit(SVal::Bv(Bv::new(w, val))));
                }
            }
            if v[0].atom() == Some("let") {
                if v.len() != 3 {
                    return Err("let needs bindings and a body".into());
                }
                let bl = v[1].list().ok_or("let bindings must be a list")?;
                if bl.is_empty() {
                    return Err("let without bindings".into());
                }
                let mut binds = vec![];
                for b in bl {
                    let p = b.list().ok_or("let binding must be a pair")?;
                    if p.len() != 2 {
                        return Err("let binding must be a pair".into());
                    }
                    let name = p[0].sym().ok_or("let-bound name must be a symbol")?;
                    binds.push((name.to_string(), parse_term(&p[1])?));
                }
                return Ok(Term::Let(binds, Box::new(parse_term(&v[2])?)));
            }
            // head
            let (op, args): (Op, &[Sx]) = match &v[0] {
                Sx::List(h) => {
                    let hs: Vec<Option<&str>> = h.iter().map(|x| x.atom()).collect();
                    match hs.as_slice() {
                        [Some("_"), Some("extract"), _, _] => (Op::Extract(num(&h[2])?, num(&h[3])?), &v[1..]),
                        [Some("_"), Some("zero_extend"), _] => (Op::ZeroExt(num(&h[2])?), &v[1..]),
                        [Some("_"), Some("sign_extend"), _] => (Op::SignExt(num(&h[2])?), &v[1..]),
                        [Some("as"), Some("const"), _] => (Op::ConstArray(parse_sort(&h[2])?), &v[1..]),
                        _ => return Err(format!("unknown indexed head {}", v[0].show())),
                    }
                }
                Sx::Atom(a) => {
                    let op = match a.as_str() {
                        "not" => Op::Not,
                        "and" => Op::And,
                        "or" => Op::Or,
                        "xor" => Op::Xor,
                        "=>" => Op::Implies,
                        "=" => Op::Eq,
                        "distinct" => Op::Distinct,
                        "ite" => Op::Ite,
                        "bvnot" => Op::BvNot,
                        "bvneg" => Op::BvNeg,
                        "bvand" => Op::BvAnd,
                        "bvor" => Op::BvOr,
                        "bvxor" => Op::BvXor,
                        "bvadd" => Op::BvAdd,
                        "bvsub" => Op::BvSub,
                        "bvmul" => Op::BvMul,
                        "bvudiv" => Op::BvUdiv,
                        "bvurem" => Op::BvUrem,
                        "bvsdiv" => Op::BvSdiv,
                        "bvsrem" => Op::BvSrem,
                        "bvsmod" => Op::BvSmod,
                        "bvshl" => Op::BvShl,
                        "bvlshr" => Op::BvLshr,
                        "bvashr" => Op::BvAshr,
                        "bvult" => Op::BvUlt,
                        "bvule" => Op::BvUle,
                        "bvugt" => Op::BvUgt,
                        "bvuge" => Op::BvUge,
                        "bvslt" => Op::BvSlt,
                        "bvsle" => Op::BvSle,
                        "bvsgt" => Op::BvSgt,
                        "bvsge" => Op::BvSge,
                        "concat" => Op::Concat,
                        "select" => Op::Select,
                        "store" => Op::Store,
                        other => return Err(format!("unknown function `{other}` (uninterpreted functions are not declared by this client)")),
                    };
                    (op, &v[1..])
                }
                other => return Err(format!("bad application head {}", other.show())),
            };
            let mut targs = Vec::with_capacity(args.len());
            for a in args {
                targs.push(parse_term(a)?);
            }
            Ok(Term::App(op, targs))
        }
    }
}

// ------------------------------------------------------------------------------------------------
// scopes: declarations, definitions, sorts

#[derive(Clone, Debug)]
pub enum Binding {
    Declared(Sort),
    Defined(Sort, Term),
}

#[derive(Clone, Debug, Default)]
pub struct Scope {
    /// one map per assertion-stack level
    pub levels: Vec<HashMap<String, Binding>>,
    /// declaration order (name, level)
    pub order: Vec<(String, usize)>,
}

impl Scope {
    pub fn new() -> Scope {
        Scope { levels: vec![HashMap::new()], order: vec![] }
    }
    pub fn lookup(&self, name: &str) -> Option<&Binding> {
        self.levels.iter().rev().find_map(|l| l.get(name))
    }
    pub fn push(&mut self) {
        self.levels.push(HashMap::new());
    }
    pub fn pop(&mut self) -> Result<(), String> {
        if self.levels.len() <= 1 {
            return Err("pop on an empty assertion stack".into());
        }
        self.levels.pop();
        let depth = self.levels.len();
        self.order.retain(|(_, l)| *l < depth);
        Ok(())
    }
    pub fn check_new_name(&self, name: &str) -> Result<(), String> {
        if RESERVED.contains(&name) {
            return Err(format!("reserved word `{name}` cannot be declared"));
        }
        if THEORY_SYMBOLS.contains(&name) {
            return Err(format!("theory symbol `{name}` cannot be redeclared"));
        }
        if name.starts_with('@') || name.starts_with('.') {
            return Err(format!("symbol `{name}` starts with a character reserved for solver use"));
        }
        if name.contains('|') || name.contains('\\') {
            return Err(format!("symbol `{name}` cannot be written in SMT-LIB"));
        }
        if self.lookup(name).is_some() {
            return Err(format!("redeclared: `{name}` is already declared or defined"));
        }
        Ok(())
    }
    pub fn declare(&mut self, name: &str, sort: Sort) -> Result<(), String> {
        self.check_new_name(name)?;
        let lvl = self.levels.len() - 1;
        self.levels[lvl].insert(name.to_string(), Binding::Declared(sort));
        self.order.push((name.to_string(), lvl));
        Ok(())
    }
    pub fn define(&mut self, name: &str, sort: Sort, body: Term) -> Result<(), String> {
        self.check_new_name(name)?;
        let got = self.sort_of(&body)?;
        if got != sort {
            return Err(format!("ill-sorted: `{name}` is defined with sort {} but its body has sort {}", sort.show(), got.show()));
        }
        let lvl = self.levels.len() - 1;
        self.levels[lvl].insert(name.to_string(), Binding::Defined(sort, body));
        self.order.push((name.to_string(), lvl));
        Ok(())
    }

    pub fn sort_of(&self, t: &Term) -> Result<Sort, String> {
        self.sort_env(t, &mut vec![])
    }

    fn sort_env(&self, t: &Term, lets: &mut Vec<(String, Sort)>) -> Result<Sort, String> {
        let bv = |s: &Sort, what: &str| -> Result<u32, String> {
            match s {
                Sort::Bv(w) => Ok(*w),
                other => Err(format!("ill-sorted: {what} expects a bit-vector, got {}", other.show())),
            }
        };
        match t {
            Term::Lit(v) => Ok(v.sort()),
            Term::Sym(name) => {
                if let Some((_, s)) = lets.iter().rev().find(|(n, _)| n == name) {
                    return Ok(s.clone());
                }
                match self.lookup(name) {
                    Some(Binding::Declared(s)) | Some(Binding::Defined(s, _)) => Ok(s.clone()),
                    None => Err(format!("undeclared: symbol `{name}` is used before it is declared or defined")),
                }
            }
            Term::Let(binds, body) => {
                // parallel let: all bound terms are sorted in the outer environment
                let mut sorts = vec![];
                let mut seen = std::collections::HashSet::new();
                for (n, b) in binds {
                    if !seen.insert(n) {
                        return Err(format!("let binds `{n}` twice"));
                    }
                    sorts.push((n.clone(), self.sort_env(b, lets)?));
                }
                let k = sorts.len();
                lets.extend(sorts);
                let r = self.sort_env(body, lets);
                lets.truncate(lets.len() - k);
                r
            }
            Term::App(op, args) => {
                let mut s = Vec::with_capacity(args.len());
                for a in args {
                    s.push(self.sort_env(a, lets)?);
                }
                let arity = |n: usize| -> Result<(), String> {
                    if s.len() == n { Ok(()) } else { Err(format!("arity: {op:?} takes {n} argument(s), got {}", s.len())) }
                };
                let at_least2 = || -> Result<(), String> {
                    if s.len() >= 2 { Ok(()) } else { Err(format!("arity: {op:?} needs at least two arguments, got {}", s.len())) }
                };
                let all_bool = |what: &str| -> Result<(), String> {
                    for x in &s {
                        if *x != Sort::Bool {
                            return Err(format!("ill-sorted: {what} expects Bool arguments, got {}", x.show()));
                        }
                    }
                    Ok(())
                };
                let all_same_bv = |what: &str| -> Result<u32, String> {
                    let w = bv(&s[0], what)?;
                    for x in &s[1..] {
                        if bv(x, what)? != w {
                            return Err(format!("ill-sorted: {what} arguments have different widths {} and {}", s[0].show(), x.show()));
                        }
                    }
                    Ok(w)
                };
                match op {
                    Op::Not => {
                        arity(1)?;
                        all_bool("not")?;
                        Ok(Sort::Bool)
                    }
                    Op::And | Op::Or | Op::Xor | Op::Implies => {
                        at_least2()?;
                        all_bool(&format!("{op:?}"))?;
                        Ok(Sort::Bool)
                    }
                    Op::Eq | Op::Distinct => {
                        at_least2()?;
                        for x in &s[1..] {
                            if *x != s[0] {
                                return Err(format!("ill-sorted: {op:?} over different sorts {} and {}", s[0].show(), x.show()));
                            }
                        }
                        Ok(Sort::Bool)
                    }
                    Op::Ite => {
                        arity(3)?;
                        if s[0] != Sort::Bool {
                            return Err(format!("ill-sorted: ite condition has sort {}", s[0].show()));
                        }
                        if s[1] != s[2] {
                            return Err(format!("ill-sorted: ite branches have sorts {} and {}", s[1].show(), s[2].show()));
                        }
                        Ok(s[1].clone())
                    }
                    Op::BvNot | Op::BvNeg => {
                        arity(1)?;
                        Ok(Sort::Bv(bv(&s[0], &format!("{op:?}"))?))
                    }
                    Op::BvAnd | Op::BvOr | Op::BvXor | Op::BvAdd | Op::BvMul => {
                        at_least2()?;
                        Ok(Sort::Bv(all_same_bv(&format!("{op:?}"))?))
                    }
                    Op::BvSub | Op::BvUdiv | Op::BvUrem | Op::BvSdiv | Op::BvSrem | Op::BvSmod | Op::BvShl | Op::BvLshr | Op::BvAshr => {
                        arity(2)?;
                        Ok(Sort::Bv(all_same_bv(&format!("{op:?}"))?))
                    }
                    Op::BvUlt | Op::BvUle | Op::BvUgt | Op::BvUge | Op::BvSlt | Op::BvSle | Op::BvSgt | Op::BvSge => {
                        arity(2)?;
                        all_same_bv(&format!("{op:?}"))?;
                        Ok(Sort::Bool)
                    }
                    Op::Concat => {
                        arity(2)?;
                        Ok(Sort::Bv(bv(&s[0], "concat")?.checked_add(bv(&s[1], "concat")?).ok_or("width overflow")?))
                    }
                    Op::Extract(i, j) => {
                        arity(1)?;
                        let w = bv(&s[0], "extract")?;
                        if !(j <= i && *i < w) {
                            return Err(format!("ill-sorted: (_ extract {i} {j}) of a {w}-bit term"));
                        }
                        Ok(Sort::Bv(i - j + 1))
                    }
                    Op::ZeroExt(k) | Op::SignExt(k) => {
                        arity(1)?;
                        Ok(Sort::Bv(bv(&s[0], "extension")?.checked_add(*k).ok_or("width overflow")?))
                    }
                    Op::Select => {
                        arity(2)?;
                        match &s[0] {
                            Sort::Arr(i, e) if **i == s[1] => Ok((**e).clone()),
                            Sort::Arr(i, _) => Err(format!("ill-sorted: select index has sort {} but the array is indexed by {}", s[1].show(), i.show())),
                            o => Err(format!("ill-sorted: select from a non-array of sort {}", o.show())),
                        }
                    }
                    Op::Store => {
                        arity(3)?;
                        match &s[0] {
                            Sort::Arr(i, e) if **i == s[1] && **e == s[2] => Ok(s[0].clone()),
                            Sort::Arr(..) => Err(format!("ill-sorted: store of ({}, {}) into {}", s[1].show(), s[2].show(), s[0].show())),
                            o => Err(format!("ill-sorted: store into a non-array of sort {}", o.show())),
                        }
                    }
                    Op::ConstArray(srt) => {
                        arity(1)?;
                        match srt {
                            Sort::Arr(_, e) if **e == s[0] => Ok(srt.clone()),
                            Sort::Arr(_, e) => Err(format!("ill-sorted: constant array of element sort {} built from a {} value", e.show(), s[0].show())),
                            _ => Err("(as const S) needs an array sort".into()),
                        }
                    }
                }
            }
        }
    }
}

// ------------------------------------------------------------------------------------------------
// evaluation

pub type Model = HashMap<String, SVal>;

pub struct Evaluator<'a> {
    pub scope: &'a Scope,
    pub model: &'a Model,
    pub memo: HashMap<String, SVal>,
}

impl<'a> Evaluator<'a> {
    pub fn new(scope: &'a Scope, model: &'a Model) -> Self {
        Evaluator { scope, model, memo: HashMap::new() }
    }

    pub fn eval(&mut self, t: &Term) -> Result<SVal, String> {
        self.eval_env(t, &mut vec![])
    }

    fn eval_env(&mut self, t: &Term, lets: &mut Vec<(String, SVal)>) -> Result<SVal, String> {
        match t {
            Term::Lit(v) => Ok(v.clone()),
            Term::Sym(name) => {
                if let Some((_, v)) = lets.iter().rev().find(|(n, _)| n == name) {
                    return Ok(v.clone());
                }
                if let Some(v) = self.memo.get(name) {
                    return Ok(v.clone());
                }
                let v = match self.scope.lookup(name) {
                    Some(Binding::Declared(_)) => self.model.get(name).cloned().ok_or_else(|| format!("no value for declared constant `{name}`"))?,
                    Some(Binding::Defined(_, body)) => {
                        let body = body.clone();
                        // definitions are closed terms: evaluated outside any let environment
                        self.eval_env(&body, &mut vec![])?
                    }
                    None => return Err(format!("undeclared symbol `{name}`")),
                };
                self.memo.insert(name.clone(), v.clone());
                Ok(v)
            }
            Term::Let(binds, body) => {
                let mut vals = vec![];
                for (n, b) in binds {
                    vals.push((n.clone(), self.eval_env(b, lets)?));
                }
                let k = vals.len();
                lets.extend(vals);
                let r = self.eval_env(body, lets);
                lets.truncate(lets.len() - k);
                r
            }
            Term::App(op, args) => {
                // lazy ite / connectives are not needed: all terms are total
                let mut v = Vec::with_capacity(args.len());
                for a in args {
                    v.push(self.eval_env(a, lets)?);
                }
                Ok(apply(op, &v))
            }
        }
    }
}

pub fn apply(op: &Op, v: &[SVal]) -> SVal {
    let b = |i: usize| v[i].as_bv();
    let bl = SVal::Bool;
    let fold = |f: &dyn Fn(&Bv, &Bv) -> Bv| -> SVal {
        let mut acc = v[0].as_bv().clone();
        for x in &v[1..] {
            acc = f(&acc, x.as_bv());
        }
        SVal::Bv(acc)
    };
    match op {
        Op::Not => bl(!v[0].as_bool()),
        Op::And => bl(v.iter().all(|x| x.as_bool())),
        Op::Or => bl(v.iter().any(|x| x.as_bool())),
        Op::Xor => bl(v.iter().fold(false, |a, x| a ^ x.as_bool())),
        Op::Implies => {
            // right associative
            let mut acc = v[v.len() - 1].as_bool();
            for x in v[..v.len() - 1].iter().rev() {
                acc = !x.as_bool() || acc;
            }
            bl(acc)
        }
        Op::Eq => bl(v.windows(2).all(|w| w[0].same(&w[1]))),
        Op::Distinct => {
            let mut ok = true;
            for i in 0..v.len() {
                for j in i + 1..v.len() {
                    if v[i].same(&v[j]) {
                        ok = false;
                    }
                }
            }
            bl(ok)
        }
        Op::Ite => {
            if v[0].as_bool() { v[1].clone() } else { v[2].clone() }
        }
        Op::BvNot => SVal::Bv(b(0).not()),
        Op::BvNeg => SVal::Bv(b(0).neg()),
        Op::BvAnd => fold(&|x, y| x.and(y)),
        Op::BvOr => fold(&|x, y| x.or(y)),
        Op::BvXor => fold(&|x, y| x.xor(y)),
        Op::BvAdd => fold(&|x, y| x.add(y)),
        Op::BvMul => fold(&|x, y| x.mul(y)),
        Op::BvSub => SVal::Bv(b(0).sub(b(1))),
        Op::BvUdiv => SVal::Bv(b(0).udiv(b(1))),
        Op::BvUrem => SVal::Bv(b(0).urem(b(1))),
        Op::BvSdiv => SVal::Bv(b(0).sdiv(b(1))),
        Op::BvSrem => SVal::Bv(b(0).srem(b(1))),
        Op::BvSmod => SVal::Bv(b(0).smod(b(1))),
        Op::BvShl => SVal::Bv(b(0).shl(b(1))),
        Op::BvLshr => SVal::Bv(b(0).lshr(b(1))),
        Op::BvAshr => SVal::Bv(b(0).ashr(b(1))),
        Op::BvUlt => bl(b(1).ugt(b(0))),
        Op::BvUle => bl(b(1).uge(b(0))),
        Op::BvUgt => bl(b(0).ugt(b(1))),
        Op::BvUge => bl(b(0).uge(b(1))),
        Op::BvSlt => bl(b(1).sgt(b(0))),
        Op::BvSle => bl(b(1).sge(b(0))),
        Op::BvSgt => bl(b(0).sgt(b(1))),
        Op::BvSge => bl(b(0).sge(b(1))),
        Op::Concat => SVal::Bv(b(0).concat(b(1))),
        Op::Extract(i, j) => SVal::Bv(b(0).extract(*i, *j)),
        Op::ZeroExt(k) => SVal::Bv(b(0).zext(*k)),
        Op::SignExt(k) => SVal::Bv(b(0).sext(*k)),
        Op::Select => match &v[0] {
            SVal::Arr { esort, default, map, .. } => SVal::from_num(esort, map.get(&v[1].num()).unwrap_or(default).clone()),
            _ => panic!("select from non-array"),
        },
        Op::Store => match &v[0] {
            SVal::Arr { isort, esort, default, map } => {
                let mut m = map.clone();
                m.insert(v[1].num(), v[2].num());
                SVal::Arr { isort: isort.clone(), esort: esort.clone(), default: default.clone(), map: m }
            }
            _ => panic!("store into non-array"),
        },
        Op::ConstArray(s) => match s {
            Sort::Arr(i, e) => SVal::Arr { isort: (**i).clone(), esort: (**e).clone(), default: v[0].num(), map: BTreeMap::new() },
            _ => panic!("const array of non-array sort"),
        },
    }
}

/// default value of a sort (all zeros)
pub fn zero_of(s: &Sort) -> SVal {
    match s {
        Sort::Bool => SVal::Bool(false),
        Sort::Bv(w) => SVal::Bv(Bv::zero(*w)),
        Sort::Arr(i, e) => SVal::Arr { isort: (**i).clone(), esort: (**e).clone(), default: BigUint::zero(), map: BTreeMap::new() },
    }
}

pub fn all_ones(w: u32) -> BigUint {
    mask(w)
}

// ------------------------------------------------------------------------------------------------
// commands

#[derive(Clone, Debug)]
pub enum Cmd {
    SetOption(String, String),
    SetLogic(String),
    SetInfo,
    DeclareConst(String, Sort),
    DefineFun(String, Sort, Term),
    Assert(Term),
    CheckSat,
    CheckSatAssuming(Vec<Term>),
    Push(u32),
    Pop(u32),
    GetValue(Vec<Term>),
    GetUnsatAssumptions,
    Exit,
}

pub fn parse_cmd(s: &Sx) -> Result<Cmd, String> {
    let l = s.list().ok_or("command must be a list")?;
    let head = l.first().and_then(|h| h.atom()).ok_or("command without a name")?;
    let n_args = |n: usize| -> Result<(), String> {
        if l.len() == n + 1 { Ok(()) } else { Err(format!("syntax: {head} takes {n} argument(s), got {}", l.len() - 1)) }
    };
    match head {
        "set-option" | "set-info" => {
            n_args(2)?;
            let k = l[1].atom().filter(|a| a.starts_with(':') && a.len() > 1).ok_or("syntax: option name must be a keyword")?;
            let v = match &l[2] {
                Sx::Atom(a) => a.clone(),
                Sx::Quoted(q) => q.clone(),
                Sx::Str(s) => s.clone(),
                other => other.show(),
            };
            if head == "set-info" { Ok(Cmd::SetInfo) } else { Ok(Cmd::SetOption(k[1..].to_string(), v)) }
        }
        "set-logic" => {
            n_args(1)?;
            Ok(Cmd::SetLogic(l[1].sym().ok_or("syntax: logic must be a symbol")?.to_string()))
        }
        "declare-const" => {
            n_args(2)?;
            let name = l[1].sym().ok_or_else(|| format!("syntax: `{}` is not a symbol", l[1].show()))?;
            Ok(Cmd::DeclareConst(name.to_string(), parse_sort(&l[2])?))
        }
        "declare-fun" => {
            n_args(3)?;
            let name = l[1].sym().ok_or_else(|| format!("syntax: `{}` is not a symbol", l[1].show()))?;
            if l[2].list().map(|a| !a.is_empty()).unwrap_or(true) {
                return Err("uninterpreted functions with arguments are outside the fragment".into());
            }
            Ok(Cmd::DeclareConst(name.to_string(), parse_sort(&l[3])?))
        }
        "define-fun" => {
            n_args(4)?;
            let name = l[1].sym().ok_or_else(|| format!("syntax: `{}` is not a symbol", l[1].show()))?;
            if l[2].list().map(|a| !a.is_empty()).unwrap_or(true) {
                return Err("define-fun with parameters is outside the fragment".into());
            }
            Ok(Cmd::DefineFun(name.to_string(), parse_sort(&l[3])?, parse_term(&l[4])?))
        }
        "assert" => {
            n_args(1)?;
            Ok(Cmd::Assert(parse_term(&l[1])?))
        }
        "check-sat" => {
            n_args(0)?;
            Ok(Cmd::CheckSat)
        }
        "check-sat-assuming" => {
            n_args(1)?;
            let ts = l[1].list().ok_or("syntax: check-sat-assuming needs a list of terms")?;
            Ok(Cmd::CheckSatAssuming(ts.iter().map(parse_term).collect::<Result<_, _>>()?))
        }
        "push" | "pop" => {
            let n = if l.len() == 1 { 1 } else {
                n_args(1)?;
                num(&l[1])?
            };
            Ok(if head == "push" { Cmd::Push(n) } else { Cmd::Pop(n) })
        }
        "get-value" => {
            n_args(1)?;
            let ts = l[1].list().ok_or("syntax: get-value needs a list of terms")?;
            if ts.is_empty() {
                return Err("syntax: get-value of nothing".into());
            }
            Ok(Cmd::GetValue(ts.iter().map(parse_term).collect::<Result<_, _>>()?))
        }
        "get-unsat-assumptions" => {
            n_args(0)?;
            Ok(Cmd::GetUnsatAssumptions)
        }
        "exit" => {
            n_args(0)?;
            Ok(Cmd::Exit)
        }
        other => Err(format!("syntax: unknown or unsupported command `{other}`")),
    }
}

/// re-print a term in standard concrete syntax (used to forward checked commands to a back end)
pub fn show_term(t: &Term) -> String {
    match t {
        Term::Lit(v) => v.show(),
        Term::Sym(s) => show_symbol(s),
        Term::Let(b, body) => format!("(let ({}) {})", b.iter().map(|(n, t)| format!("({} {})", show_symbol(n), show_term(t))).collect::<Vec<_>>().join(" "), show_term(body)),
        Term::App(op, args) => {
            let head = match op {
                Op::Not => "not".to_string(),
                Op::And => "and".into(),
                Op::Or => "or".into(),
                Op::Xor => "xor".into(),
                Op::Implies => "=>".into(),
                Op::Eq => "=".into(),
                Op::Distinct => "distinct".into(),
                Op::Ite => "ite".into(),
                Op::BvNot => "bvnot".into(),
                Op::BvNeg => "bvneg".into(),
                Op::BvAnd => "bvand".into(),
                Op::BvOr => "bvor".into(),
                Op::BvXor => "bvxor".into(),
                Op::BvAdd => "bvadd".into(),
                Op::BvSub => "bvsub".into(),
                Op::BvMul => "bvmul".into(),
                Op::BvUdiv => "bvudiv".into(),
                Op::BvUrem => "bvurem".into(),
                Op::BvSdiv => "bvsdiv".into(),
                Op::BvSrem => "bvsrem".into(),
                Op::BvSmod => "bvsmod".into(),
                Op::BvShl => "bvshl".into(),
                Op::BvLshr => "bvlshr".into(),
                Op::BvAshr => "bvashr".into(),
                Op::BvUlt => "bvult".into(),
                Op::BvUle => "bvule".into(),
                Op::BvUgt => "bvugt".into(),
                Op::BvUge => "bvuge".into(),
                Op::BvSlt => "bvslt".into(),
                Op::BvSle => "bvsle".into(),
                Op::BvSgt => "bvsgt".into(),
                Op::BvSge => "bvsge".into(),
                Op::Concat => "concat".into(),
                Op::Extract(i, j) => format!("(_ extract {i} {j})"),
                Op::ZeroExt(k) => format!("(_ zero_extend {k})"),
                Op::SignExt(k) => format!("(_ sign_extend {k})"),
                Op::Select => "select".into(),
                Op::Store => "store".into(),
                Op::ConstArray(s) => format!("(as const {})", s.show()),
            };
            format!("({} {})", head, args.iter().map(show_term).collect::<Vec<_>>().join(" "))
        }
    }
}

pub fn show_symbol(s: &str) -> String {
    if is_simple_symbol(s) && !RESERVED.contains(&s) { s.to_string() } else { format!("|{s}|") }
}

#[cfg(test)]
mod tests {
    use super::*;
    #[test]
    fn basics() {
        let sx = parse_sexprs("(assert (= (bvadd #b01 |a b|) ((_ extract 1 0) #x3)))").unwrap();
        let c = parse_cmd(&sx[0]).unwrap();
        let mut sc = Scope::new();
        sc.declare("a b", Sort::Bv(2)).unwrap();
        if let Cmd::Assert(t) = c {
            assert_eq!(sc.sort_of(&t).unwrap(), Sort::Bool);
            let mut m = Model::new();
            m.insert("a b".into(), SVal::Bv(Bv::from_u64(2, 2)));
            assert_eq!(Evaluator::new(&sc, &m).eval(&t).unwrap(), SVal::Bool(true));
        } else {
            panic!()
        }
        assert_eq!(parse_sexprs("(a (b"), Err(LexError::Incomplete));
        assert!(matches!(parse_sexprs("a)"), Err(LexError::Syntax(_))));
        // Bool and (_ BitVec 1) are different sorts
        let t = parse_term(&parse_sexprs("(= true #b1)").unwrap()[0]).unwrap();
        assert!(sc.sort_of(&t).is_err());
    }
}

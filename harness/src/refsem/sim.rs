//! R3: reference simulator for transition systems, built on R2

use super::bv::Val;
use super::expr_eval::{self as r2, Env, EvalError};
use patronus::expr::{Context, ExprRef};
use patronus::system::TransitionSystem;

pub struct RefSim<'a> {
    pub ctx: &'a Context,
    pub sys: &'a TransitionSystem,
    /// current values of all state and input symbols
    pub vals: Env,
    pub snapshots: Vec<Env>,
    pub steps: u64,
}

impl<'a> RefSim<'a> {
    pub fn new(ctx: &'a Context, sys: &'a TransitionSystem) -> Self {
        RefSim { ctx, sys, vals: Env::default(), snapshots: vec![], steps: 0 }
    }

    /// `free` supplies the value of every state and input symbol before init expressions are applied
    /// (states with an init expression get overwritten, in state order).
    pub fn init(&mut self, mut free: impl FnMut(ExprRef) -> Val) -> Result<(), EvalError> {
        self.vals.clear();
        self.steps = 0;
        for s in &self.sys.states {
            self.vals.insert(s.symbol, free(s.symbol));
        }
        for i in &self.sys.inputs {
            self.vals.insert(*i, free(*i));
        }
        for s in &self.sys.states {
            if let Some(init) = s.init {
                let v = r2::eval(self.ctx, &self.vals, init)?;
                self.vals.insert(s.symbol, v);
            }
        }
        Ok(())
    }

    pub fn step(&mut self) -> Result<(), EvalError> {
        let mut memo = Env::default();
        let mut next: Vec<(ExprRef, Val)> = vec![];
        for s in &self.sys.states {
            if let Some(n) = s.next {
                next.push((s.symbol, r2::eval_memo(self.ctx, &self.vals, &mut memo, n)?));
            }
        }
        for (s, v) in next {
            self.vals.insert(s, v);
        }
        self.steps += 1;
        Ok(())
    }

    pub fn set(&mut self, sym: ExprRef, v: Val) {
        self.vals.insert(sym, v);
    }

    pub fn get(&self, e: ExprRef) -> Result<Val, EvalError> {
        r2::eval(self.ctx, &self.vals, e)
    }

    pub fn get_many(&self, es: &[ExprRef]) -> Result<Vec<Val>, EvalError> {
        let mut memo = Env::default();
        es.iter().map(|e| r2::eval_memo(self.ctx, &self.vals, &mut memo, *e)).collect()
    }

    pub fn take_snapshot(&mut self) -> usize {
        self.snapshots.push(self.vals.clone());
        self.snapshots.len() - 1
    }

    /// restores the *state* values; inputs keep their current values (the caller sets them afterwards)
    pub fn restore_snapshot(&mut self, id: usize) {
        let snap = self.snapshots[id].clone();
        for s in &self.sys.states {
            self.vals.insert(s.symbol, snap[&s.symbol].clone());
        }
    }
}

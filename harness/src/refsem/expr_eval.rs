//! R2: reference evaluator and deep type checker over patronus `Context` DAGs.
//! Reads node structure via `ctx[e]`, computes all meaning with R1 (`bv.rs`).

use super::bv::{ArrV, Bv, Val};
use baa::BitVecOps;
use num_bigint::BigUint;
use patronus::expr::{Context, Expr, ExprRef, Type};
use rustc_hash::FxHashMap;

pub type Env = FxHashMap<ExprRef, Val>;

/// numeric value of a baa bit vector read from its words (bits above width are ignored here;
/// canonicity is checked separately)
pub fn bv_from_baa(v: &impl BitVecOps) -> Bv {
    let mut bytes = Vec::with_capacity(v.words().len() * 8);
    for w in v.words() {
        bytes.extend_from_slice(&w.to_le_bytes());
    }
    Bv::new(v.width(), BigUint::from_bytes_le(&bytes))
}

/// canonical baa value for a reference value (built through the decimal/binary string parser of baa)
pub fn baa_from_bv(b: &Bv) -> baa::BitVecValue {
    baa::BitVecValue::from_bit_str(&b.bit_str()).expect("bit string")
}

/// true iff the baa value has exactly the canonical word representation of its numeric value
pub fn is_canonical(v: &impl BitVecOps) -> bool {
    let n = v.width().div_ceil(64) as usize;
    if v.words().len() != n.max(1) {
        return false;
    }
    let rem = v.width() % 64;
    if rem != 0 {
        let top = *v.words().last().unwrap();
        if top >> rem != 0 {
            return false;
        }
    }
    true
}

pub fn children(ctx: &Context, e: ExprRef) -> Vec<ExprRef> {
    match &ctx[e] {
        Expr::BVSymbol { .. } | Expr::BVLiteral(_) | Expr::ArraySymbol { .. } => vec![],
        Expr::BVZeroExt { e, .. }
        | Expr::BVSignExt { e, .. }
        | Expr::BVSlice { e, .. }
        | Expr::BVNot(e, _)
        | Expr::BVNegate(e, _)
        | Expr::ArrayConstant { e, .. } => vec![*e],
        Expr::BVEqual(a, b)
        | Expr::BVImplies(a, b)
        | Expr::BVGreater(a, b)
        | Expr::BVGreaterSigned(a, b, _)
        | Expr::BVGreaterEqual(a, b)
        | Expr::BVGreaterEqualSigned(a, b, _)
        | Expr::BVConcat(a, b, _)
        | Expr::BVAnd(a, b, _)
        | Expr::BVOr(a, b, _)
        | Expr::BVXor(a, b, _)
        | Expr::BVShiftLeft(a, b, _)
        | Expr::BVArithmeticShiftRight(a, b, _)
        | Expr::BVShiftRight(a, b, _)
        | Expr::BVAdd(a, b, _)
        | Expr::BVMul(a, b, _)
        | Expr::BVSignedDiv(a, b, _)
        | Expr::BVUnsignedDiv(a, b, _)
        | Expr::BVSignedMod(a, b, _)
        | Expr::BVSignedRem(a, b, _)
        | Expr::BVUnsignedRem(a, b, _)
        | Expr::BVSub(a, b, _)
        | Expr::ArrayEqual(a, b) => vec![*a, *b],
        Expr::BVArrayRead { array, index, .. } => vec![*array, *index],
        Expr::BVIte { cond, tru, fals } | Expr::ArrayIte { cond, tru, fals } => {
            vec![*cond, *tru, *fals]
        }
        Expr::ArrayStore { array, index, data } => vec![*array, *index, *data],
    }
}

pub fn op_name(e: &Expr) -> &'static str {
    match e {
        Expr::BVSymbol { .. } => "bvsym",
        Expr::BVLiteral(_) => "bvlit",
        Expr::BVZeroExt { .. } => "zext",
        Expr::BVSignExt { .. } => "sext",
        Expr::BVSlice { .. } => "slice",
        Expr::BVNot(..) => "not",
        Expr::BVNegate(..) => "neg",
        Expr::BVEqual(..) => "eq",
        Expr::BVImplies(..) => "implies",
        Expr::BVGreater(..) => "ugt",
        Expr::BVGreaterSigned(..) => "sgt",
        Expr::BVGreaterEqual(..) => "ugte",
        Expr::BVGreaterEqualSigned(..) => "sgte",
        Expr::BVConcat(..) => "concat",
        Expr::BVAnd(..) => "and",
        Expr::BVOr(..) => "or",
        Expr::BVXor(..) => "xor",
        Expr::BVShiftLeft(..) => "shl",
        Expr::BVArithmeticShiftRight(..) => "ashr",
        Expr::BVShiftRight(..) => "lshr",
        Expr::BVAdd(..) => "add",
        Expr::BVMul(..) => "mul",
        Expr::BVSignedDiv(..) => "sdiv",
        Expr::BVUnsignedDiv(..) => "udiv",
        Expr::BVSignedMod(..) => "smod",
        Expr::BVSignedRem(..) => "srem",
        Expr::BVUnsignedRem(..) => "urem",
        Expr::BVSub(..) => "sub",
        Expr::BVArrayRead { .. } => "read",
        Expr::BVIte { .. } => "ite",
        Expr::ArraySymbol { .. } => "arrsym",
        Expr::ArrayConstant { .. } => "arrconst",
        Expr::ArrayEqual(..) => "arreq",
        Expr::ArrayStore { .. } => "store",
        Expr::ArrayIte { .. } => "arrite",
    }
}

/// post-order list of all nodes reachable from the roots (each once)
pub fn post_order(ctx: &Context, roots: &[ExprRef]) -> Vec<ExprRef> {
    let mut seen: rustc_hash::FxHashSet<ExprRef> = Default::default();
    let mut out = Vec::new();
    let mut stack: Vec<(ExprRef, bool)> = roots.iter().rev().map(|r| (*r, false)).collect();
    while let Some((e, done)) = stack.pop() {
        if done {
            out.push(e);
            continue;
        }
        if !seen.insert(e) {
            continue;
        }
        stack.push((e, true));
        for c in children(ctx, e).into_iter().rev() {
            if !seen.contains(&c) {
                stack.push((c, false));
            }
        }
    }
    out
}

#[derive(Debug, Clone)]
pub struct EvalError(pub String);

/// Evaluate `root` under `env`. Any node present in `env` takes that value (symbols must be present).
/// `memo` can be shared across roots evaluated under the same env.
pub fn eval_memo(
    ctx: &Context,
    env: &Env,
    memo: &mut Env,
    root: ExprRef,
) -> Result<Val, EvalError> {
    if let Some(v) = memo.get(&root) {
        return Ok(v.clone());
    }
    // explicit stack, post-order, skipping sub-trees that already have a value
    let mut stack: Vec<(ExprRef, bool)> = vec![(root, false)];
    while let Some((e, ready)) = stack.pop() {
        if memo.contains_key(&e) {
            continue;
        }
        if let Some(v) = env.get(&e) {
            memo.insert(e, v.clone());
            continue;
        }
        if !ready {
            stack.push((e, true));
            for c in children(ctx, e) {
                if !memo.contains_key(&c) {
                    stack.push((c, false));
                }
            }
            continue;
        }
        let v = eval_node(ctx, memo, e)?;
        memo.insert(e, v);
    }
    Ok(memo[&root].clone())
}

pub fn eval(ctx: &Context, env: &Env, root: ExprRef) -> Result<Val, EvalError> {
    let mut memo = Env::default();
    eval_memo(ctx, env, &mut memo, root)
}

pub fn eval_node(ctx: &Context, m: &Env, e: ExprRef) -> Result<Val, EvalError> {
    let b = |r: &ExprRef| -> &Bv { m[r].bv() };
    let a = |r: &ExprRef| -> &ArrV { m[r].arr() };
    let bl = |x: bool| Val::B(Bv::from_bool(x));
    Ok(match &ctx[e] {
        Expr::BVSymbol { name, width } => {
            return Err(EvalError(format!("unbound symbol {} : bv<{}>", ctx[*name], width)));
        }
        Expr::ArraySymbol { name, .. } => {
            return Err(EvalError(format!("unbound array symbol {}", ctx[*name])));
        }
        Expr::BVLiteral(v) => Val::B(bv_from_baa(&v.get(ctx))),
        Expr::BVZeroExt { e, by, .. } => Val::B(b(e).zext(*by)),
        Expr::BVSignExt { e, by, .. } => Val::B(b(e).sext(*by)),
        Expr::BVSlice { e, hi, lo } => Val::B(b(e).extract(*hi, *lo)),
        Expr::BVNot(x, _) => Val::B(b(x).not()),
        Expr::BVNegate(x, _) => Val::B(b(x).neg()),
        Expr::BVEqual(x, y) => bl(b(x) == b(y)),
        Expr::BVImplies(x, y) => bl(!b(x).is_true() || b(y).is_true()),
        Expr::BVGreater(x, y) => bl(b(x).ugt(b(y))),
        Expr::BVGreaterSigned(x, y, _) => bl(b(x).sgt(b(y))),
        Expr::BVGreaterEqual(x, y) => bl(b(x).uge(b(y))),
        Expr::BVGreaterEqualSigned(x, y, _) => bl(b(x).sge(b(y))),
        Expr::BVConcat(x, y, _) => Val::B(b(x).concat(b(y))),
        Expr::BVAnd(x, y, _) => Val::B(b(x).and(b(y))),
        Expr::BVOr(x, y, _) => Val::B(b(x).or(b(y))),
        Expr::BVXor(x, y, _) => Val::B(b(x).xor(b(y))),
        Expr::BVShiftLeft(x, y, _) => Val::B(b(x).shl(b(y))),
        Expr::BVArithmeticShiftRight(x, y, _) => Val::B(b(x).ashr(b(y))),
        Expr::BVShiftRight(x, y, _) => Val::B(b(x).lshr(b(y))),
        Expr::BVAdd(x, y, _) => Val::B(b(x).add(b(y))),
        Expr::BVMul(x, y, _) => Val::B(b(x).mul(b(y))),
        Expr::BVSignedDiv(x, y, _) => Val::B(b(x).sdiv(b(y))),
        Expr::BVUnsignedDiv(x, y, _) => Val::B(b(x).udiv(b(y))),
        Expr::BVSignedMod(x, y, _) => Val::B(b(x).smod(b(y))),
        Expr::BVSignedRem(x, y, _) => Val::B(b(x).srem(b(y))),
        Expr::BVUnsignedRem(x, y, _) => Val::B(b(x).urem(b(y))),
        Expr::BVSub(x, y, _) => Val::B(b(x).sub(b(y))),
        Expr::BVArrayRead { array, index, .. } => Val::B(a(array).select(b(index))),
        Expr::BVIte { cond, tru, fals } => {
            if b(cond).is_true() { m[tru].clone() } else { m[fals].clone() }
        }
        Expr::ArrayConstant { e, index_width, .. } => Val::A(ArrV::constant(*index_width, b(e))),
        Expr::ArrayEqual(x, y) => bl(a(x).ext_eq(a(y))),
        Expr::ArrayStore { array, index, data } => Val::A(a(array).store(b(index), b(data))),
        Expr::ArrayIte { cond, tru, fals } => {
            if b(cond).is_true() { m[tru].clone() } else { m[fals].clone() }
        }
    })
}

/// Independent typing rules; checks *every* node reachable from root.
pub fn deep_type_check(ctx: &Context, root: ExprRef) -> Result<Type, String> {
    let order = post_order(ctx, &[root]);
    let mut t: FxHashMap<ExprRef, Type> = Default::default();
    for e in order {
        let ty = type_node(ctx, &t, e).map_err(|m| format!("node {:?} {}: {}", e, op_name(&ctx[e]), m))?;
        t.insert(e, ty);
    }
    Ok(t[&root])
}

/// same as deep_type_check but sharing the type table between roots
pub fn deep_type_check_many(
    ctx: &Context,
    roots: &[ExprRef],
    t: &mut FxHashMap<ExprRef, Type>,
) -> Result<(), String> {
    for e in post_order(ctx, roots) {
        if t.contains_key(&e) {
            continue;
        }
        let ty = type_node(ctx, t, e).map_err(|m| format!("node {:?} {}: {}", e, op_name(&ctx[e]), m))?;
        t.insert(e, ty);
    }
    Ok(())
}

fn type_node(ctx: &Context, t: &FxHashMap<ExprRef, Type>, e: ExprRef) -> Result<Type, String> {
    let bvw = |r: &ExprRef| -> Result<u32, String> {
        match t[r] {
            Type::BV(w) => Ok(w),
            Type::Array(_) => Err("expected bit-vector operand".into()),
        }
    };
    let arr = |r: &ExprRef| -> Result<(u32, u32), String> {
        match t[r] {
            Type::Array(a) => Ok((a.index_width, a.data_width)),
            Type::BV(_) => Err("expected array operand".into()),
        }
    };
    let same = |x: &ExprRef, y: &ExprRef, w: Option<u32>| -> Result<u32, String> {
        let (a, b) = (bvw(x)?, bvw(y)?);
        if a != b {
            return Err(format!("operand widths differ: {a} vs {b}"));
        }
        if let Some(w) = w {
            if w != a {
                return Err(format!("recorded width {w} != operand width {a}"));
            }
        }
        Ok(a)
    };
    let mk_arr = |iw: u32, dw: u32| {
        Type::Array(patronus::expr::ArrayType { index_width: iw, data_width: dw })
    };
    Ok(match &ctx[e] {
        Expr::BVSymbol { width, .. } => {
            if *width == 0 {
                return Err("zero-width symbol".into());
            }
            Type::BV(*width)
        }
        Expr::BVLiteral(v) => {
            if v.width() == 0 {
                return Err("zero-width literal".into());
            }
            Type::BV(v.width())
        }
        Expr::BVZeroExt { e, by, width } | Expr::BVSignExt { e, by, width } => {
            let w = bvw(e)?;
            if w.checked_add(*by) != Some(*width) {
                return Err(format!("extension width {width} != {w} + {by}"));
            }
            Type::BV(*width)
        }
        Expr::BVSlice { e, hi, lo } => {
            let w = bvw(e)?;
            if hi < lo {
                return Err(format!("slice hi {hi} < lo {lo}"));
            }
            if *hi >= w {
                return Err(format!("slice hi {hi} >= width {w}"));
            }
            Type::BV(hi - lo + 1)
        }
        Expr::BVNot(x, w) | Expr::BVNegate(x, w) => {
            let xw = bvw(x)?;
            if xw != *w {
                return Err(format!("recorded width {w} != operand width {xw}"));
            }
            Type::BV(*w)
        }
        Expr::BVEqual(x, y) | Expr::BVGreater(x, y) | Expr::BVGreaterEqual(x, y) => {
            same(x, y, None)?;
            Type::BV(1)
        }
        Expr::BVGreaterSigned(x, y, w) | Expr::BVGreaterEqualSigned(x, y, w) => {
            same(x, y, Some(*w))?;
            Type::BV(1)
        }
        Expr::BVImplies(x, y) => {
            if same(x, y, None)? != 1 {
                return Err("implies needs 1-bit operands".into());
            }
            Type::BV(1)
        }
        Expr::BVConcat(x, y, w) => {
            let (a, b) = (bvw(x)?, bvw(y)?);
            if a.checked_add(b) != Some(*w) {
                return Err(format!("concat width {w} != {a} + {b}"));
            }
            Type::BV(*w)
        }
        Expr::BVAnd(x, y, w)
        | Expr::BVOr(x, y, w)
        | Expr::BVXor(x, y, w)
        | Expr::BVShiftLeft(x, y, w)
        | Expr::BVArithmeticShiftRight(x, y, w)
        | Expr::BVShiftRight(x, y, w)
        | Expr::BVAdd(x, y, w)
        | Expr::BVMul(x, y, w)
        | Expr::BVSignedDiv(x, y, w)
        | Expr::BVUnsignedDiv(x, y, w)
        | Expr::BVSignedMod(x, y, w)
        | Expr::BVSignedRem(x, y, w)
        | Expr::BVUnsignedRem(x, y, w)
        | Expr::BVSub(x, y, w) => {
            same(x, y, Some(*w))?;
            Type::BV(*w)
        }
        Expr::BVArrayRead { array, index, width } => {
            let (iw, dw) = arr(array)?;
            let i = bvw(index)?;
            if i != iw {
                return Err(format!("read index width {i} != array index width {iw}"));
            }
            if dw != *width {
                return Err(format!("read width {width} != array data width {dw}"));
            }
            Type::BV(*width)
        }
        Expr::BVIte { cond, tru, fals } => {
            if bvw(cond)? != 1 {
                return Err("ite condition not 1 bit".into());
            }
            let w = same(tru, fals, None)?;
            Type::BV(w)
        }
        Expr::ArraySymbol { index_width, data_width, .. } => {
            if *index_width == 0 || *data_width == 0 {
                return Err("zero-width array symbol".into());
            }
            mk_arr(*index_width, *data_width)
        }
        Expr::ArrayConstant { e, index_width, data_width } => {
            let w = bvw(e)?;
            if w != *data_width {
                return Err(format!("array const data width {data_width} != {w}"));
            }
            if *index_width == 0 {
                return Err("zero index width".into());
            }
            mk_arr(*index_width, *data_width)
        }
        Expr::ArrayEqual(x, y) => {
            if arr(x)? != arr(y)? {
                return Err("array equality over different array types".into());
            }
            Type::BV(1)
        }
        Expr::ArrayStore { array, index, data } => {
            let (iw, dw) = arr(array)?;
            if bvw(index)? != iw {
                return Err("store index width mismatch".into());
            }
            if bvw(data)? != dw {
                return Err("store data width mismatch".into());
            }
            mk_arr(iw, dw)
        }
        Expr::ArrayIte { cond, tru, fals } => {
            if bvw(cond)? != 1 {
                return Err("array ite condition not 1 bit".into());
            }
            let (a, b) = (arr(tru)?, arr(fals)?);
            if a != b {
                return Err("array ite branches differ in type".into());
            }
            mk_arr(a.0, a.1)
        }
    })
}

/// symbols (in first-occurrence post-order) reachable from roots
pub fn symbols_of(ctx: &Context, roots: &[ExprRef]) -> Vec<ExprRef> {
    post_order(ctx, roots).into_iter().filter(|e| ctx[*e].is_symbol()).collect()
}

/// compact textual rendering independent of patronus' serializer (for replay files / samples)
pub fn render(ctx: &Context, root: ExprRef) -> String {
    let mut s = String::new();
    render_into(ctx, root, &mut s, 0);
    s
}

fn render_into(ctx: &Context, e: ExprRef, s: &mut String, depth: usize) {
    if depth > 40 || s.len() > 4000 {
        s.push_str("...");
        return;
    }
    match &ctx[e] {
        Expr::BVSymbol { name, width } => s.push_str(&format!("{}:{}", ctx[*name], width)),
        Expr::ArraySymbol { name, index_width, data_width } => {
            s.push_str(&format!("{}:[{}->{}]", ctx[*name], index_width, data_width))
        }
        Expr::BVLiteral(v) => {
            let b = bv_from_baa(&v.get(ctx));
            s.push_str(&b.show());
        }
        other => {
            s.push_str(op_name(other));
            match other {
                Expr::BVZeroExt { by, .. } | Expr::BVSignExt { by, .. } => s.push_str(&format!("<{by}>")),
                Expr::BVSlice { hi, lo, .. } => s.push_str(&format!("<{hi}:{lo}>")),
                Expr::ArrayConstant { index_width, .. } => s.push_str(&format!("<{index_width}>")),
                _ => {}
            }
            s.push('(');
            for (i, c) in children(ctx, e).into_iter().enumerate() {
                if i > 0 {
                    s.push_str(", ");
                }
                render_into(ctx, c, s, depth + 1);
            }
            s.push(')');
        }
    }
}

/// value of node `e` if its children had the given values (positional), without building a node
pub fn apply_node(ctx: &Context, e: ExprRef, child_vals: &[Val]) -> Result<Val, EvalError> {
    let kids = children(ctx, e);
    assert_eq!(kids.len(), child_vals.len());
    let mut m = Env::default();
    for (k, v) in kids.iter().zip(child_vals.iter()) {
        if let Some(prev) = m.get(k) {
            if prev != v {
                // the same original child occurs twice but was given two different values: cannot happen
                // for a consistent rewrite of children
                return Err(EvalError("inconsistent child values".into()));
            }
        }
        m.insert(*k, v.clone());
    }
    eval_node(ctx, &m, e)
}

/// shape of a node for rule signatures: literal kinds, symbol, or operator name
pub fn shape(ctx: &Context, e: ExprRef) -> String {
    match &ctx[e] {
        Expr::BVLiteral(v) => {
            let b = bv_from_baa(&v.get(ctx));
            if b.is_zero() {
                "lit0".into()
            } else if b.v == super::bv::mask(b.w) {
                "litones".into()
            } else if b.v == BigUint::from(1u32) {
                "lit1".into()
            } else {
                "lit".into()
            }
        }
        Expr::BVSymbol { .. } => "sym".into(),
        Expr::ArraySymbol { .. } => "asym".into(),
        other => op_name(other).into(),
    }
}

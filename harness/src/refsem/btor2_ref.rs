//! R5: reference btor2 interpreter working on the *text*, written from the BTOR2 paper
//! (Niemetz, Preiner, Wolf, Biere: "BTOR2, BtorMC and Boolector 3.0", CAV 2018).
//! Own tokenizer, own sort table, own typing rules; values computed with R1.

use super::bv::{ArrV, Bv, Val};
use num_bigint::BigUint;
use std::collections::HashMap;

#[derive(Clone, Copy, Debug, PartialEq, Eq, Hash)]
pub enum Sort {
    Bv(u32),
    Arr(u32, u32),
}

#[derive(Clone, Debug)]
pub struct Line {
    pub id: i64,
    pub op: String,
    /// remaining tokens after the op (comments removed)
    pub toks: Vec<String>,
    pub lineno: usize,
}

#[derive(Clone, Debug)]
pub struct B2 {
    pub lines: Vec<Line>,
    pub by_id: HashMap<i64, usize>,
    pub sorts: HashMap<i64, Sort>,
    /// sort of every value-carrying line
    pub node_sort: HashMap<i64, Sort>,
}

#[derive(Clone, Debug, PartialEq, Eq)]
pub enum Reject {
    /// not parseable as btor2 at all (syntax, unknown ids, unknown ops)
    Malformed(String),
    /// the declared sort of a line disagrees with its operands / the typing rule of the operator
    IllSorted(usize, String),
    /// uses an operator the reader documents as unsupported
    Unsupported(String),
}

pub const UNSUPPORTED: &[&str] = &[
    "rol", "ror", "inc", "dec", "saddo", "uaddo", "sdivo", "udivo", "smulo", "umulo", "ssubo", "usubo", "fair", "justice",
];

fn tokenize(text: &str) -> Vec<Line> {
    let mut out = vec![];
    for (lineno, raw) in text.lines().enumerate() {
        let code = match raw.find(';') {
            Some(i) => &raw[..i],
            None => raw,
        };
        let toks: Vec<&str> = code.split([' ', '\t']).filter(|t| !t.is_empty()).collect();
        if toks.is_empty() {
            continue;
        }
        let id = toks[0].parse::<i64>().unwrap_or(i64::MIN);
        out.push(Line { id, op: toks.get(1).unwrap_or(&"").to_string(), toks: toks[2.min(toks.len())..].iter().map(|s| s.to_string()).collect(), lineno });
    }
    out
}

const UNARY: &[&str] = &["not", "inc", "dec", "neg", "redand", "redor", "redxor"];
const BIN_SAME: &[&str] = &["and", "nand", "nor", "or", "xnor", "xor", "rol", "ror", "sll", "sra", "srl", "add", "mul", "sdiv", "udiv", "smod", "srem", "urem", "sub"];
const BIN_CMP: &[&str] = &["sgt", "ugt", "sgte", "ugte", "slt", "ult", "slte", "ulte"];
const BIN_OVF: &[&str] = &["saddo", "uaddo", "sdivo", "udivo", "smulo", "umulo", "ssubo", "usubo"];

impl B2 {
    /// parse + sort check
    pub fn load(text: &str) -> Result<B2, Reject> {
        let lines = tokenize(text);
        let mut b = B2 { lines, by_id: HashMap::new(), sorts: HashMap::new(), node_sort: HashMap::new() };
        for i in 0..b.lines.len() {
            let l = b.lines[i].clone();
            if l.id <= 0 {
                return Err(Reject::Malformed(format!("line {}: bad line id", l.lineno + 1)));
            }
            if b.by_id.contains_key(&l.id) {
                return Err(Reject::Malformed(format!("line {}: duplicate id {}", l.lineno + 1, l.id)));
            }
            b.check_line(&l)?;
            b.by_id.insert(l.id, i);
        }
        Ok(b)
    }

    fn sort_tok(&self, l: &Line, k: usize) -> Result<Sort, Reject> {
        let t = l.toks.get(k).ok_or_else(|| Reject::Malformed(format!("line {}: missing sort id", l.lineno + 1)))?;
        let id = t.parse::<i64>().map_err(|_| Reject::Malformed(format!("line {}: bad sort id {t}", l.lineno + 1)))?;
        self.sorts.get(&id).copied().ok_or_else(|| Reject::Malformed(format!("line {}: {id} is not a sort", l.lineno + 1)))
    }

    /// sort of an operand token (may be negated; negation needs a bit-vector)
    fn arg_sort(&self, l: &Line, k: usize) -> Result<Sort, Reject> {
        let t = l.toks.get(k).ok_or_else(|| Reject::Malformed(format!("line {}: missing operand", l.lineno + 1)))?;
        let id = t.parse::<i64>().map_err(|_| Reject::Malformed(format!("line {}: bad operand {t}", l.lineno + 1)))?;
        let s = self.node_sort.get(&id.abs()).copied().ok_or_else(|| Reject::Malformed(format!("line {}: operand {id} is not a node", l.lineno + 1)))?;
        if id < 0 && !matches!(s, Sort::Bv(_)) {
            return Err(Reject::IllSorted(l.lineno, "negated array operand".into()));
        }
        Ok(s)
    }

    fn num_tok(&self, l: &Line, k: usize) -> Result<u32, Reject> {
        let t = l.toks.get(k).ok_or_else(|| Reject::Malformed(format!("line {}: missing number", l.lineno + 1)))?;
        t.parse::<u32>().map_err(|_| Reject::Malformed(format!("line {}: bad number {t}", l.lineno + 1)))
    }

    fn check_line(&mut self, l: &Line) -> Result<(), Reject> {
        let ill = |m: String| Reject::IllSorted(l.lineno, m);
        let bvw = |s: Sort, what: &str| -> Result<u32, Reject> {
            match s {
                Sort::Bv(w) => Ok(w),
                Sort::Arr(..) => Err(Reject::IllSorted(l.lineno, format!("{what} must be a bit-vector"))),
            }
        };
        let op = l.op.as_str();
        if UNSUPPORTED.contains(&op) {
            return Err(Reject::Unsupported(op.to_string()));
        }
        match op {
            "sort" => {
                match l.toks.first().map(|s| s.as_str()) {
                    Some("bitvec") => {
                        let w = self.num_tok(l, 1)?;
                        if w == 0 {
                            return Err(Reject::Malformed(format!("line {}: zero-width sort", l.lineno + 1)));
                        }
                        self.sorts.insert(l.id, Sort::Bv(w));
                    }
                    Some("array") => {
                        let i = self.sort_tok(l, 1)?;
                        let e = self.sort_tok(l, 2)?;
                        match (i, e) {
                            (Sort::Bv(iw), Sort::Bv(dw)) => {
                                self.sorts.insert(l.id, Sort::Arr(iw, dw));
                            }
                            _ => return Err(Reject::Malformed(format!("line {}: nested array sorts are outside the supported fragment", l.lineno + 1))),
                        }
                    }
                    _ => return Err(Reject::Malformed(format!("line {}: bad sort", l.lineno + 1))),
                }
                return Ok(());
            }
            "input" | "state" => {
                let s = self.sort_tok(l, 0)?;
                self.node_sort.insert(l.id, s);
                return Ok(());
            }
            "zero" | "one" | "ones" => {
                let s = self.sort_tok(l, 0)?;
                bvw(s, "constant sort")?;
                self.node_sort.insert(l.id, s);
                return Ok(());
            }
            "const" | "constd" | "consth" => {
                let s = self.sort_tok(l, 0)?;
                let w = bvw(s, "constant sort")?;
                let v = l.toks.get(1).ok_or_else(|| Reject::Malformed(format!("line {}: constant without value", l.lineno + 1)))?;
                let radix = match op {
                    "const" => 2,
                    "constd" => 10,
                    _ => 16,
                };
                let (neg, digits) = match v.strip_prefix('-') {
                    Some(d) if op == "constd" => (true, d),
                    _ => (false, v.as_str()),
                };
                let n = BigUint::parse_bytes(digits.as_bytes(), radix).ok_or_else(|| Reject::Malformed(format!("line {}: bad constant {v}", l.lineno + 1)))?;
                let fits = if neg { n <= super::bv::pow2(w - 1) } else { n.bits() <= w as u64 };
                if !fits || (op == "const" && digits.len() as u32 > w) {
                    return Err(Reject::Malformed(format!("line {}: constant {v} does not fit {w} bits", l.lineno + 1)));
                }
                self.node_sort.insert(l.id, s);
                return Ok(());
            }
            "init" | "next" => {
                let s = self.sort_tok(l, 0)?;
                let st = l.toks.get(1).and_then(|t| t.parse::<i64>().ok()).ok_or_else(|| Reject::Malformed(format!("line {}: bad state id", l.lineno + 1)))?;
                let st_line = self.by_id.get(&st).map(|i| &self.lines[*i]);
                if st < 0 || st_line.map(|x| x.op != "state").unwrap_or(true) {
                    return Err(Reject::Malformed(format!("line {}: {st} is not a state", l.lineno + 1)));
                }
                let ss = self.node_sort[&st];
                let vs = self.arg_sort(l, 2)?;
                if ss != s {
                    return Err(ill(format!("declared sort {s:?} differs from the state's sort {ss:?}")));
                }
                let ok = vs == ss || (op == "init" && matches!((ss, vs), (Sort::Arr(_, d), Sort::Bv(w)) if d == w));
                if !ok {
                    return Err(ill(format!("{op} value has sort {vs:?}, state has {ss:?}")));
                }
                return Ok(());
            }
            "bad" | "constraint" | "output" => {
                let _ = self.arg_sort(l, 0)?;
                return Ok(());
            }
            _ => {}
        }
        // operators with a declared result sort
        let decl = self.sort_tok(l, 0)?;
        let res: Sort = if UNARY.contains(&op) {
            let a = bvw(self.arg_sort(l, 1)?, "operand")?;
            match op {
                "redand" | "redor" | "redxor" => Sort::Bv(1),
                _ => Sort::Bv(a),
            }
        } else if op == "sext" || op == "uext" {
            let a = bvw(self.arg_sort(l, 1)?, "operand")?;
            let by = self.num_tok(l, 2)?;
            Sort::Bv(a.checked_add(by).ok_or_else(|| Reject::Malformed("width overflow".into()))?)
        } else if op == "slice" {
            let a = bvw(self.arg_sort(l, 1)?, "operand")?;
            let u = self.num_tok(l, 2)?;
            let lo = self.num_tok(l, 3)?;
            if u < lo || u >= a {
                return Err(ill(format!("slice [{u}:{lo}] of a {a}-bit operand")));
            }
            Sort::Bv(u - lo + 1)
        } else if BIN_SAME.contains(&op) {
            let a = bvw(self.arg_sort(l, 1)?, "operand")?;
            let b = bvw(self.arg_sort(l, 2)?, "operand")?;
            if a != b {
                return Err(ill(format!("operand widths {a} and {b} differ")));
            }
            Sort::Bv(a)
        } else if BIN_CMP.contains(&op) || BIN_OVF.contains(&op) {
            let a = bvw(self.arg_sort(l, 1)?, "operand")?;
            let b = bvw(self.arg_sort(l, 2)?, "operand")?;
            if a != b {
                return Err(ill(format!("operand widths {a} and {b} differ")));
            }
            Sort::Bv(1)
        } else if op == "iff" || op == "implies" {
            let a = bvw(self.arg_sort(l, 1)?, "operand")?;
            let b = bvw(self.arg_sort(l, 2)?, "operand")?;
            if a != 1 || b != 1 {
                return Err(ill(format!("{op} needs 1-bit operands, got {a} and {b}")));
            }
            Sort::Bv(1)
        } else if op == "eq" || op == "neq" {
            let a = self.arg_sort(l, 1)?;
            let b = self.arg_sort(l, 2)?;
            if a != b {
                return Err(ill(format!("operand sorts {a:?} and {b:?} differ")));
            }
            Sort::Bv(1)
        } else if op == "concat" {
            let a = bvw(self.arg_sort(l, 1)?, "operand")?;
            let b = bvw(self.arg_sort(l, 2)?, "operand")?;
            Sort::Bv(a.checked_add(b).ok_or_else(|| Reject::Malformed("width overflow".into()))?)
        } else if op == "read" {
            let a = self.arg_sort(l, 1)?;
            let i = self.arg_sort(l, 2)?;
            match (a, i) {
                (Sort::Arr(iw, dw), Sort::Bv(w)) if iw == w => Sort::Bv(dw),
                _ => return Err(ill(format!("read of {a:?} at {i:?}"))),
            }
        } else if op == "ite" {
            let c = self.arg_sort(l, 1)?;
            let a = self.arg_sort(l, 2)?;
            let b = self.arg_sort(l, 3)?;
            if c != Sort::Bv(1) {
                return Err(ill(format!("ite condition has sort {c:?}")));
            }
            if a != b {
                return Err(ill(format!("ite branches {a:?} and {b:?} differ")));
            }
            a
        } else if op == "write" {
            let a = self.arg_sort(l, 1)?;
            let i = self.arg_sort(l, 2)?;
            let d = self.arg_sort(l, 3)?;
            match (a, i, d) {
                (Sort::Arr(iw, dw), Sort::Bv(x), Sort::Bv(y)) if iw == x && dw == y => a,
                _ => return Err(ill(format!("write into {a:?} at {i:?} of {d:?}"))),
            }
        } else {
            return Err(Reject::Malformed(format!("line {}: unknown operator {op}", l.lineno + 1)));
        };
        if res != decl {
            return Err(ill(format!("declared sort {decl:?} but the operator yields {res:?}")));
        }
        self.node_sort.insert(l.id, res);
        Ok(())
    }

    pub fn line(&self, id: i64) -> &Line {
        &self.lines[self.by_id[&id]]
    }

    pub fn lines_with_op<'a>(&'a self, op: &'a str) -> impl Iterator<Item = &'a Line> + 'a {
        self.lines.iter().filter(move |l| l.op == op)
    }

    /// value of an operand token (id possibly negated) under a valuation of input/state lines
    pub fn eval_ref(&self, id: i64, valuation: &HashMap<i64, Val>, memo: &mut HashMap<i64, Val>) -> Val {
        let v = self.eval_id(id.abs(), valuation, memo);
        if id < 0 { Val::B(v.bv().not()) } else { v }
    }

    fn eval_id(&self, id: i64, valuation: &HashMap<i64, Val>, memo: &mut HashMap<i64, Val>) -> Val {
        if let Some(v) = memo.get(&id) {
            return v.clone();
        }
        // iterative post-order to stay off the call stack
        let mut stack: Vec<(i64, bool)> = vec![(id, false)];
        while let Some((n, ready)) = stack.pop() {
            if memo.contains_key(&n) {
                continue;
            }
            let l = self.line(n);
            let args = self.arg_ids(l);
            if !ready {
                stack.push((n, true));
                for a in args {
                    if !memo.contains_key(&a.abs()) {
                        stack.push((a.abs(), false));
                    }
                }
                continue;
            }
            let v = self.eval_line(l, valuation, memo);
            memo.insert(n, v);
        }
        memo[&id].clone()
    }

    fn arg_ids(&self, l: &Line) -> Vec<i64> {
        let p = |k: usize| l.toks[k].parse::<i64>().unwrap();
        match l.op.as_str() {
            "input" | "state" | "zero" | "one" | "ones" | "const" | "constd" | "consth" => vec![],
            "sext" | "uext" | "slice" => vec![p(1)],
            op if UNARY.contains(&op) => vec![p(1)],
            "ite" | "write" => vec![p(1), p(2), p(3)],
            _ => vec![p(1), p(2)],
        }
    }

    fn eval_line(&self, l: &Line, valuation: &HashMap<i64, Val>, memo: &HashMap<i64, Val>) -> Val {
        let arg = |k: usize| -> Val {
            let id = l.toks[k].parse::<i64>().unwrap();
            let v = memo[&id.abs()].clone();
            if id < 0 { Val::B(v.bv().not()) } else { v }
        };
        let sort = self.node_sort[&l.id];
        let w = match sort {
            Sort::Bv(w) => w,
            Sort::Arr(_, d) => d,
        };
        let b = |x: bool| Val::B(Bv::from_bool(x));
        let num = |k: usize| l.toks[k].parse::<u32>().unwrap();
        match l.op.as_str() {
            "input" | "state" => valuation.get(&l.id).cloned().unwrap_or_else(|| panic!("btor2_ref: no value for line {}", l.id)),
            "zero" => Val::B(Bv::zero(w)),
            "one" => Val::B(Bv::one(w)),
            "ones" => Val::B(Bv::ones(w)),
            "const" => Val::B(Bv::new(w, BigUint::parse_bytes(l.toks[1].as_bytes(), 2).unwrap())),
            "consth" => Val::B(Bv::new(w, BigUint::parse_bytes(l.toks[1].as_bytes(), 16).unwrap())),
            "constd" => {
                let t = &l.toks[1];
                match t.strip_prefix('-') {
                    Some(d) => Val::B(Bv::new(w, BigUint::parse_bytes(d.as_bytes(), 10).unwrap()).neg()),
                    None => Val::B(Bv::new(w, BigUint::parse_bytes(t.as_bytes(), 10).unwrap())),
                }
            }
            "not" => Val::B(arg(1).bv().not()),
            "neg" => Val::B(arg(1).bv().neg()),
            "inc" => Val::B(arg(1).bv().add(&Bv::one(w))),
            "dec" => Val::B(arg(1).bv().sub(&Bv::one(w))),
            "redand" => {
                let a = arg(1);
                b(a.bv().v == super::bv::mask(a.bv().w))
            }
            "redor" => b(!arg(1).bv().is_zero()),
            "redxor" => {
                let a = arg(1);
                let ones = (0..a.bv().w).filter(|i| a.bv().bit(*i)).count();
                b(ones % 2 == 1)
            }
            "sext" => Val::B(arg(1).bv().sext(num(2))),
            "uext" => Val::B(arg(1).bv().zext(num(2))),
            "slice" => Val::B(arg(1).bv().extract(num(2), num(3))),
            "iff" => b(arg(1).bv().is_true() == arg(2).bv().is_true()),
            "implies" => b(!arg(1).bv().is_true() || arg(2).bv().is_true()),
            "eq" => b(arg(1) == arg(2)),
            "neq" => b(arg(1) != arg(2)),
            "sgt" => b(arg(1).bv().sgt(arg(2).bv())),
            "ugt" => b(arg(1).bv().ugt(arg(2).bv())),
            "sgte" => b(arg(1).bv().sge(arg(2).bv())),
            "ugte" => b(arg(1).bv().uge(arg(2).bv())),
            "slt" => b(arg(2).bv().sgt(arg(1).bv())),
            "ult" => b(arg(2).bv().ugt(arg(1).bv())),
            "slte" => b(arg(2).bv().sge(arg(1).bv())),
            "ulte" => b(arg(2).bv().uge(arg(1).bv())),
            "and" => Val::B(arg(1).bv().and(arg(2).bv())),
            "nand" => Val::B(arg(1).bv().and(arg(2).bv()).not()),
            "or" => Val::B(arg(1).bv().or(arg(2).bv())),
            "nor" => Val::B(arg(1).bv().or(arg(2).bv()).not()),
            "xor" => Val::B(arg(1).bv().xor(arg(2).bv())),
            "xnor" => Val::B(arg(1).bv().xor(arg(2).bv()).not()),
            "sll" => Val::B(arg(1).bv().shl(arg(2).bv())),
            "srl" => Val::B(arg(1).bv().lshr(arg(2).bv())),
            "sra" => Val::B(arg(1).bv().ashr(arg(2).bv())),
            "add" => Val::B(arg(1).bv().add(arg(2).bv())),
            "sub" => Val::B(arg(1).bv().sub(arg(2).bv())),
            "mul" => Val::B(arg(1).bv().mul(arg(2).bv())),
            "udiv" => Val::B(arg(1).bv().udiv(arg(2).bv())),
            "urem" => Val::B(arg(1).bv().urem(arg(2).bv())),
            "sdiv" => Val::B(arg(1).bv().sdiv(arg(2).bv())),
            "srem" => Val::B(arg(1).bv().srem(arg(2).bv())),
            "smod" => Val::B(arg(1).bv().smod(arg(2).bv())),
            "concat" => Val::B(arg(1).bv().concat(arg(2).bv())),
            "read" => Val::B(arg(1).arr().select(arg(2).bv())),
            "write" => Val::A(arg(1).arr().store(arg(2).bv(), arg(3).bv())),
            "ite" => {
                if arg(1).bv().is_true() { arg(2) } else { arg(3) }
            }
            other => panic!("btor2_ref: no semantics for {other}"),
        }
    }

    /// value an `init` line gives its state (bit-vector values initialise every cell of an array state)
    pub fn init_value(&self, l: &Line, valuation: &HashMap<i64, Val>, memo: &mut HashMap<i64, Val>) -> Val {
        let st: i64 = l.toks[1].parse().unwrap();
        let v = self.eval_ref(l.toks[2].parse().unwrap(), valuation, memo);
        match (self.node_sort[&st], &v) {
            (Sort::Arr(iw, _), Val::B(b)) => Val::A(ArrV::constant(iw, b)),
            _ => v,
        }
    }
}

//! R4: explicit-state reachability for small transition systems (the oracle of C02/C03/C10)

use super::bv::{ArrV, Bv, Val};
use super::expr_eval::{self as r2, Env};
use num_bigint::BigUint;
use patronus::expr::{Context, ExprRef, Type};
use patronus::system::TransitionSystem;
use rustc_hash::{FxHashMap, FxHashSet};

fn sym_type(ctx: &Context, s: ExprRef) -> Type {
    crate::wl::expr::s_type(ctx, s)
}

pub fn bits_of_type(t: Type) -> u32 {
    match t {
        Type::BV(w) => w,
        Type::Array(a) => (1u32 << a.index_width) * a.data_width,
    }
}

/// decode `k` into values for the symbols (arrays cell by cell)
pub fn decode(ctx: &Context, syms: &[ExprRef], mut k: u64, env: &mut Env) {
    for s in syms {
        match sym_type(ctx, *s) {
            Type::BV(w) => {
                let v = k & ((1u64 << w) - 1);
                k >>= w;
                env.insert(*s, Val::B(Bv::from_u64(w, v)));
            }
            Type::Array(a) => {
                let mut arr = ArrV { iw: a.index_width, dw: a.data_width, default: BigUint::from(0u32), map: Default::default() };
                for i in 0..(1u64 << a.index_width) {
                    let v = k & ((1u64 << a.data_width) - 1);
                    k >>= a.data_width;
                    arr.map.insert(BigUint::from(i), BigUint::from(v));
                }
                env.insert(*s, Val::A(arr));
            }
        }
    }
}

pub fn encode(ctx: &Context, syms: &[ExprRef], env: &Env) -> u64 {
    let mut k = 0u64;
    let mut shift = 0u32;
    for s in syms {
        match (&env[s], sym_type(ctx, *s)) {
            (Val::B(b), Type::BV(w)) => {
                k |= b.to_u64().unwrap() << shift;
                shift += w;
            }
            (Val::A(a), Type::Array(t)) => {
                for i in 0..(1u64 << t.index_width) {
                    let v = a.select(&Bv::from_u64(t.index_width, i)).to_u64().unwrap();
                    k |= v << shift;
                    shift += t.data_width;
                }
            }
            _ => panic!("reach: value/type mismatch"),
        }
    }
    k
}

pub struct Reach {
    pub state_syms: Vec<ExprRef>,
    pub input_syms: Vec<ExprRef>,
    pub state_bits: u32,
    pub input_bits: u32,
    /// layers[j] = states reachable in exactly j steps along constraint-satisfying paths
    pub layers: Vec<FxHashSet<u64>>,
    /// for each depth j: set of bad indices that can hold at step j (with constraints satisfied at 0..=j)
    pub bad_at: Vec<FxHashSet<usize>>,
    /// smallest depth at which some bad state is reachable
    pub min_bad_depth: Option<usize>,
    /// true if the layer sequence reached a fixpoint (no new states) within the explored depth
    pub fixpoint: bool,
    /// initial states that start at least one constraint-satisfying execution (where an init expression reads an
    /// input, the step-0 input is tied to the initial state: layers[0] also holds the others)
    pub init_ok: FxHashSet<u64>,
    pub all_reached: FxHashSet<u64>,
    /// is the conjunction of constraints satisfiable at every explored depth < first dead end
    pub constraints_sat_upto: usize,
    /// memo: (state, input) -> (constraints hold, bads, successor)
    pub step_memo: FxHashMap<(u64, u64), (bool, Vec<bool>, u64)>,
}

pub struct ReachCfg {
    pub max_depth: usize,
    /// stop as soon as no new states appear
    pub stop_at_fixpoint: bool,
}

/// initial configurations: free states (and, if an init expression reads inputs, the step-0 inputs)
/// enumerated, init expressions evaluated in state order. Returns (state, Some(step-0 input)) pairs when
/// the inputs matter for initialisation, else (state, None).
pub fn initial_states(ctx: &Context, sys: &TransitionSystem) -> Result<Vec<(u64, Option<u64>)>, String> {
    let state_syms: Vec<ExprRef> = sys.states.iter().map(|s| s.symbol).collect();
    let free: Vec<ExprRef> = sys.states.iter().filter(|s| s.init.is_none()).map(|s| s.symbol).collect();
    let free_bits: u32 = free.iter().map(|s| bits_of_type(sym_type(ctx, *s))).sum();
    let inits: Vec<ExprRef> = sys.states.iter().filter_map(|s| s.init).collect();
    let reads_inputs = r2::symbols_of(ctx, &inits).iter().any(|s| sys.inputs.contains(s));
    let input_bits: u32 = if reads_inputs { sys.inputs.iter().map(|s| bits_of_type(sym_type(ctx, *s))).sum() } else { 0 };
    if free_bits + input_bits > 20 {
        return Err("too many free initial bits".into());
    }
    let mut out: FxHashSet<(u64, Option<u64>)> = FxHashSet::default();
    for k in 0..(1u64 << free_bits) {
        for i in 0..(1u64 << input_bits) {
            let mut env = Env::default();
            decode(ctx, &free, k, &mut env);
            if reads_inputs {
                decode(ctx, &sys.inputs, i, &mut env);
            }
            for s in &sys.states {
                if let Some(init) = s.init {
                    let v = r2::eval(ctx, &env, init).map_err(|e| format!("init reads something that is neither an earlier state nor an input: {}", e.0))?;
                    env.insert(s.symbol, v);
                }
            }
            out.insert((encode(ctx, &state_syms, &env), if reads_inputs { Some(i) } else { None }));
        }
    }
    Ok(out.into_iter().collect())
}

pub fn explore(ctx: &Context, sys: &TransitionSystem, cfg: &ReachCfg) -> Result<Reach, String> {
    let state_syms: Vec<ExprRef> = sys.states.iter().map(|s| s.symbol).collect();
    let input_syms: Vec<ExprRef> = sys.inputs.clone();
    let state_bits: u32 = state_syms.iter().map(|s| bits_of_type(sym_type(ctx, *s))).sum();
    let input_bits: u32 = input_syms.iter().map(|s| bits_of_type(sym_type(ctx, *s))).sum();
    if state_bits > 16 || input_bits > 8 {
        return Err(format!("system too large for explicit exploration ({state_bits} state bits, {input_bits} input bits)"));
    }
    let mut r = Reach {
        state_syms: state_syms.clone(),
        input_syms: input_syms.clone(),
        state_bits,
        input_bits,
        layers: vec![],
        bad_at: vec![],
        min_bad_depth: None,
        fixpoint: false,
        init_ok: Default::default(),
        all_reached: Default::default(),
        constraints_sat_upto: 0,
        step_memo: Default::default(),
    };
    let init = initial_states(ctx, sys)?;
    // btor2 reading of a state without a next function: its value is unconstrained from step 1 on
    // (the reader turns such a state into an input when it has no init either). `step` keeps the value;
    // here every other value is added as a successor as well.
    let mut free_fields: Vec<(u32, u32)> = vec![];
    {
        let mut shift = 0u32;
        for st in &sys.states {
            let b = bits_of_type(sym_type(ctx, st.symbol));
            if st.next.is_none() {
                free_fields.push((shift, b));
            }
            shift += b;
        }
    }
    let free_bits: u32 = free_fields.iter().map(|f| f.1).sum();
    let expand = |succ: u64, out: &mut FxHashSet<u64>| {
        if free_bits == 0 {
            out.insert(succ);
            return;
        }
        for k in 0..(1u64 << free_bits) {
            let mut v = succ;
            let mut kk = k;
            for (shift, b) in free_fields.iter() {
                let mask = ((1u64 << b) - 1) << shift;
                v = (v & !mask) | ((kk & ((1u64 << b) - 1)) << shift);
                kk >>= b;
            }
            out.insert(v);
        }
    };
    let mut frontier: FxHashSet<u64> = init.iter().map(|x| x.0).collect();
    let mut dead = false;
    for depth in 0..=cfg.max_depth {
        let mut next: FxHashSet<u64> = Default::default();
        let mut bads: FxHashSet<usize> = Default::default();
        let mut any_constraint_sat = false;
        // (state, input) pairs of this depth; at depth 0 the input may be tied to the initial state
        let mut pairs: Vec<(u64, u64)> = vec![];
        if depth == 0 {
            for (s, i0) in init.iter() {
                match i0 {
                    Some(i) => pairs.push((*s, *i)),
                    None => pairs.extend((0..(1u64 << input_bits)).map(|i| (*s, i))),
                }
            }
        } else {
            for s in frontier.iter() {
                pairs.extend((0..(1u64 << input_bits)).map(|i| (*s, i)));
            }
        }
        {
            for (s, i) in pairs.iter() {
                let (s, i) = (s, *i);
                let (ok, b, succ) = step(ctx, sys, &mut r, *s, i)?;
                if !ok {
                    continue;
                }
                if depth == 0 {
                    r.init_ok.insert(*s);
                }
                any_constraint_sat = true;
                for (k, x) in b.iter().enumerate() {
                    if *x {
                        bads.insert(k);
                    }
                }
                expand(succ, &mut next);
            }
        }
        if any_constraint_sat && !dead {
            r.constraints_sat_upto = depth + 1;
        } else {
            dead = true;
        }
        if !bads.is_empty() && r.min_bad_depth.is_none() {
            r.min_bad_depth = Some(depth);
        }
        let before = r.all_reached.len();
        r.all_reached.extend(frontier.iter().copied());
        let grew = r.all_reached.len() > before;
        r.layers.push(frontier);
        r.bad_at.push(bads);
        if !grew && depth > 0 {
            // every state of this layer was seen before: later layers repeat earlier ones
            // (the exact layer sets may still differ, but the union is complete)
            let unseen_next = next.iter().any(|s| !r.all_reached.contains(s));
            if !unseen_next {
                r.fixpoint = true;
                if cfg.stop_at_fixpoint {
                    break;
                }
            }
        }
        frontier = next;
    }
    Ok(r)
}

/// (constraints hold, value of each bad, successor state) for state `s` under input `i`
pub fn step(ctx: &Context, sys: &TransitionSystem, r: &mut Reach, s: u64, i: u64) -> Result<(bool, Vec<bool>, u64), String> {
    if let Some(v) = r.step_memo.get(&(s, i)) {
        return Ok(v.clone());
    }
    let mut env = Env::default();
    decode(ctx, &r.state_syms, s, &mut env);
    decode(ctx, &r.input_syms, i, &mut env);
    let mut memo = Env::default();
    let mut ok = true;
    for c in &sys.constraints {
        if !r2::eval_memo(ctx, &env, &mut memo, *c).map_err(|e| e.0)?.bv().is_true() {
            ok = false;
            break;
        }
    }
    let mut bads = vec![];
    let mut succ = 0;
    if ok {
        for b in &sys.bad_states {
            bads.push(r2::eval_memo(ctx, &env, &mut memo, *b).map_err(|e| e.0)?.bv().is_true());
        }
        let mut nenv = Env::default();
        for st in &sys.states {
            let v = match st.next {
                Some(n) => r2::eval_memo(ctx, &env, &mut memo, n).map_err(|e| e.0)?,
                None => env[&st.symbol].clone(),
            };
            nenv.insert(st.symbol, v);
        }
        succ = encode(ctx, &r.state_syms, &nenv);
    }
    let v = (ok, bads, succ);
    r.step_memo.insert((s, i), v.clone());
    Ok(v)
}

impl Reach {
    /// is some bad state reachable within k steps (steps 0..=k), under the constraints?
    pub fn bad_within(&self, k: usize) -> bool {
        self.bad_at.iter().take(k + 1).any(|b| !b.is_empty())
    }
    /// is bad number `idx` reachable within k steps?
    pub fn bad_idx_within(&self, idx: usize, k: usize) -> bool {
        self.bad_at.iter().take(k + 1).any(|b| b.contains(&idx))
    }
    /// are the constraints jointly satisfiable at every step 0..=k (on some path)?
    pub fn constraints_satisfiable_upto(&self, k: usize) -> bool {
        self.constraints_sat_upto > k
    }
}

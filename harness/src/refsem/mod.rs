pub mod btor2_ref;
pub mod bv;
pub mod expr_eval;
pub mod reach;
pub mod sim;
pub mod smt;

#!/bin/bash
# usage: tools/run_all.sh quick|thorough [seed]   -- runs every claimed check, prints one line each
tier=${1:-quick}; seed=${2:-1}
cd /verif
for id in $(python3 -c "import json;print(' '.join(c['property_id'] for c in json.load(open('MANIFEST.json'))['checks']))"); do
  s=$(date +%s)
  out=$(VERIF_SEED=$seed ./check $id $tier 2>&1); rc=$?
  echo "$id rc=$rc $(( $(date +%s) - s ))s  $(echo "$out" | grep -c '^KNOWN-FINDING') known  $(echo "$out" | grep -c '^VIOLATION') violations  $(echo "$out" | grep -c '^INCONCLUSIVE') inconclusive"
  if [ $rc -ne 0 ]; then echo "$out" | grep -E "^(VIOLATION|INCONCLUSIVE|  signature)" | head -6; fi
done

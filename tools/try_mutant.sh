#!/bin/bash
# usage: tools/try_mutant.sh <patch.diff> <ID> [<ID> ...]
# Applies a seeded change to /repo, runs the quick tier of the given checks, prints one line per check
# (exit code + violation signatures) and ALWAYS restores /repo's working tree afterwards.
set -u
patch=$1; shift
cd /repo || exit 2
if [ -n "$(git status --porcelain --untracked-files=no | grep -v 'inputs/repair/.*tb.csv')" ]; then echo "refusing: /repo has local modifications"; exit 2; fi
if ! git apply --check "$patch" 2>/dev/null; then echo "patch does not apply: $patch"; exit 2; fi
git apply "$patch"
trap 'cd /repo && git checkout -q -- . ' EXIT
cd /verif
for id in "$@"; do
  s=$(date +%s)
  out=$(VERIF_SEED=${VERIF_SEED:-1} ./check "$id" quick 2>&1); rc=$?
  sigs=$(echo "$out" | grep -E "^  signature:" | sed 's/  signature: //' | sort -u | head -4 | tr '\n' ';')
  d=$(basename "$(dirname "$patch")"); [ "$d" = OUT ] && d=$(basename "$(dirname "$(dirname "$patch")")")
  echo "MUTANT $d/$(basename "$patch") check=$id rc=$rc time=$(( $(date +%s) - s ))s sigs=[$sigs]"
done

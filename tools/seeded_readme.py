#!/usr/bin/env python3
"""Generates /verif/seeded/README.md from the meta.json files."""
import json, glob, os
rows = []
for d in sorted(glob.glob('/verif/seeded/*/meta.json')):
    m = json.load(open(d))
    name = os.path.basename(os.path.dirname(d))
    sigs = []
    for r in m['results']:
        if r['exit_code'] == 1:
            sigs.append(f"{r['check']}: " + ", ".join(f"`{s}`" for s in r['violation_signatures'][:2]))
    missed = [r['check'] for r in m['results'] if r['exit_code'] == 0]
    note = open(os.path.join(os.path.dirname(d), 'author_notes.md')).read().strip().splitlines()
    first = next((l.strip('# ').strip() for l in note if l.strip()), '')
    rows.append((name, m['property'], first[:110], "; ".join(sigs) or "NOT CAUGHT", ", ".join(missed)))
out = ["# Seeded changes\n",
       "Each directory holds one change to cucapra/patronus written by an independent sub-agent that was given only the text of one property and a scratch worktree (nothing from /verif): `patch.diff`, `demo.rs` (fails with the change, passes without), `author_notes.md`, `meta.json` (what it needs to manifest, what was run, results). Every change was confirmed here first (`tools/confirm_mutant.sh`: patch applies, pinned suite still 115 passing, demonstration fails with / passes without) and then run against the quick tier of the checks (`tools/try_mutant.sh`: `git -C /repo apply`, `./check <ID> quick`, `git -C /repo checkout -- .`).\n",
       "| change | property | what | caught by (first signatures) | also run, silent |", "|---|---|---|---|---|"]
for r in rows:
    out.append("| " + " | ".join(x.replace('|', '\\|') for x in r) + " |")
caught = sum(1 for r in rows if r[3] != "NOT CAUGHT")
out.append(f"\n{caught} of {len(rows)} seeded changes are caught by the quick tier.\n")
open('/verif/seeded/README.md', 'w').write("\n".join(out))
print(f"{caught}/{len(rows)} caught")

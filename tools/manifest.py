#!/usr/bin/env python3
"""Writes /verif/MANIFEST.json from the table below (kept in one place so it stays valid)."""
import json, subprocess

# id -> (level, technique, level text, level note, design ref)
CHECKS = {
    "C06": ("exploration",
            "runtime differential monitor: eval_expr vs big-integer reference evaluator on generated DAGs",
            "Every call of eval_expr/eval_bv_expr/eval_array_expr made by the workload is judged by an independent num-bigint SMT-LIB evaluator (value, width, canonical words, is_equal, interning, short-circuit). Held on the N executions in the evidence file; no claim beyond them.",
            "Trusts the reference semantics refsem/bv.rs (cross-checked against z3) and the release-profile build; generated expressions only (depth<=4, widths<=~190).",
            "DESIGN.md §4 C06"),
    "C01": ("exploration",
            "runtime differential monitor: simplifier input/output and every rewrite step (hook H2) judged by a big-integer reference evaluator + deep type check",
            "Each simplifier execution of the workload (three entry points) is observed end to end and step by step through the H2 rewrite observer; values compared on all assignments (small scope, exhaustive depth<=2 terms) or 24 corner/correlated assignments (random rule-directed DAGs). Held on the executions listed in the evidence. A fourth entry point, system::transform::simplify_expressions on generated transition systems, is judged function by function (inputs, state symbols and presence of every init/next function unchanged).",
            "Equivalence by evaluation only (no proof); trusts refsem R1/R2; system-level application is covered by C11. (The system-level clause is also covered by C11 with lock-step simulation and the shipped designs.)",
            "DESIGN.md §4 C01"),
    "C12": ("exploration",
            "runtime monitor: shadow structural map over builder-call histories, periodic re-lookup of all references",
            "Every builder call of long generated histories is checked against a shadow hash-consing map (same key same ref, new key fresh ref, normalisations), every earlier reference is looked up again every 1000 calls; literals come from 14 computation routes. Held on the histories executed. The generic extend() helper and the substitution API simple_transform_expr are treated as builders too: their results must be the references the builder methods give for the same structure.",
            "Keys are computed by the harness from the arguments it passed; context clones audited separately.",
            "DESIGN.md §4 C12"),
    "C13": ("exploration",
            "runtime monitor: reference equality of simplifier results across call histories and cache containers; logical step counter (hook H2) for termination",
            "Batches of expressions sharing sub-terms are simplified alone, twice, and through shared sparse/dense simplifiers in random orders; returned references must coincide; termination is bounded progress: <= 10^6 rewrite events per call. Held on the batches executed.",
            "Termination is restated as a step bound; no normal form is demanded.",
            "DESIGN.md §4 C13"),
    "C07": ("exploration",
            "runtime differential monitor: Simulator::get after every operation of generated histories vs reference simulator",
            "Every value read from patronus::sim::Interpreter after each init/set/step/snapshot/restore operation of generated histories on generated systems is compared with the reference simulator R3 (built on the big-integer evaluator). Held on the histories executed. Three histories per shipped design inside the evaluator's operator domain.",
            "Inputs are set again after restore (interface/implementation differ on whether snapshots include inputs); widths <= 34 bits, no div/rem, no array equality (evaluator limits belong to C06).",
            "DESIGN.md §4 C07"),
    "C11": ("exploration",
            "runtime differential monitor: system before/after simplify_expressions and replace_anonymous_inputs_with_zero, function-by-function evaluation + lock-step reference simulation; rewrite steps via hook H2",
            "Each pass execution on generated systems and on the 116 corpus designs is judged function by function by the reference evaluator (exhaustively for the <=14 symbol bits of generated systems), by structural checks (inputs/states kept, removed inputs gone everywhere) and by a 20-step lock-step run in the reference simulator. Held on the systems executed.",
            "Equivalence by evaluation; corpus designs judged on sampled valuations only.",
            "DESIGN.md §4 C11"),
    "C17": ("exploration",
            "runtime monitor: reported cone vs independent dependency reachability + perturbation pairs in the reference simulator",
            "Every cone computed by the three analysis variants on generated systems and corpus designs is checked for tightness against an independent syntactic reachability and for sufficiency by pairs of reference executions that agree on the cone and differ elsewhere. Held on the roots and pairs executed.",
            "Sufficiency is sampled (32 pairs per root and variant), not proven.",
            "DESIGN.md §4 C17"),
    "C08": ("exploration",
            "runtime differential monitor: parse_str result vs a line-by-line reference btor2 interpreter working on the text",
            "Every generated well-formed btor2 file is read by patronus and by an independent text-level interpreter (own tokenizer, sort table, BTOR2 typing rules, big-integer semantics); inputs/states/sorts are matched positionally and every output/bad/constraint/init/next is evaluated on both sides; single-token ill-sorted variants must be rejected. Held on the files executed.",
            "R5 (BTOR2 paper) is the arbiter of well-formed / ill-sorted; values compared on 6 valuations per file.",
            "DESIGN.md §4 C08"),
    "C18": ("exploration",
            "runtime robustness monitor: parse_str on mutated btor2 texts under catch_unwind / shard journal, deep type check of accepted systems",
            "Hundreds of thousands of mutated btor2 texts (generated files and corpus files) are fed to parse_str; panics and aborts are violations (except on documented unsupported operators); accepted systems are type-checked node by node by an independent checker, init/next/root types and symbol declarations verified. Held on the mutants executed.",
            "Mutation-based, not exhaustive; widths capped at 65536 to keep memory exhaustion apart from crashes.",
            "DESIGN.md §4 C18"),
    "C09": ("exploration",
            "runtime differential monitor: serialize -> parse_str round trip, positional comparison by reference / reference evaluator / lock-step reference simulation",
            "Every system the writer accepts (generated systems and the 116 corpus designs) is written and read back into the same context; inputs, states, outputs, bads and constraints are matched by position and type, functions compared by reference, else by the reference evaluator under positionally translated assignments (exhaustive <= 14 symbol bits) and a 20-step lock-step reference simulation; explicit distinct names are checked over a second cycle. Held on the systems executed. Parsed systems are also cycled with their state names moved to yosys-style alias lines.",
            "Equivalence by evaluation; init expressions only read earlier states; writer-rejected systems are skipped.",
            "DESIGN.md §4 C09"),
    "C16": ("exploration",
            "runtime round-trip monitor: witness_to_string then parse_witness(es), field-by-field comparison with the harness-side description",
            "Generated complete witnesses (bit-vector and array states, several recorded entries per array, wide values, multi-witness streams) are printed and read back; failed properties, names, values and array contents at every recorded index must be equal; streams must come back one by one for every limit. Held on the witnesses executed. A third of the witnesses is also printed with print_witness into a sink that accepts 1-9 bytes per write call; limits beyond the number written (incl. usize::MAX) must return all witnesses.",
            "Bit-vector inputs only (array inputs are documented as unsupported by the printer); array index width <= 64.",
            "DESIGN.md §4 C16"),
    "C05": ("exploration",
            "runtime monitor: serialize_cmd output parsed, sort-checked and evaluated by an independent strict SMT-LIB front end, compared with the reference evaluator on the expression",
            "Every command text written for the workload (systematic Bool/BitVec coercion matrix + random DAGs incl. div/rem, arrays, odd symbol names) is read by the strict front end R6 (Bool and (_ BitVec 1) distinct, declared-before-use, identifier rules) and its term evaluated under the SMT-LIB semantics on all/16 assignments; must agree with the reference evaluator on the expression. Held on the commands executed.",
            "R6 written from the SMT-LIB 2.6 standard; names without a legal spelling are outside the domain.",
            "DESIGN.md §4 C05"),
    "C14": ("exploration",
            "runtime round-trip monitor: writer output read back by parse_command/parse_expr/read_command, compared up to equivalence by the reference evaluator; model-value texts and their truncations",
            "Every command the writer emits for the workload is read back and compared (kind, symbols, operands up to evaluation equivalence); generated model-value texts in solver spellings must be read as exactly their denotation and truncated/unbalanced variants must yield an error, never a wrong value or a panic. Held on the texts executed. Half of the streamed scripts declare a name again with another sort after the scope of its first declaration was popped.",
            "get-value responses are exercised through parse_expr here and through the live SolverContext::get_value path in C02/C03.",
            "DESIGN.md §4 C14"),
    "C02": ("exploration",
            "runtime monitor: bmc verdicts (library and tools/mc) against a strict reference solver on PATH, compared with explicit-state reachability and across solver profiles / modes / simplification",
            "patronus::mc::bmc runs through the real SmtLibSolverCtx text protocol against refsolver (strict SMT-LIB monitor with the four solver capability profiles, z3 as decision back end) on generated systems; every verdict is compared with an independent explicit-state search and with the other configurations; the shipped tools/mc binary is run on written btor2 files incl. stateless systems. Held on the runs executed. The shipped btor2 designs are checked by the library in two configurations and by tools/mc on the file: verdict and step of the first failure must coincide, and none may contradict a bad state reached by constrained random simulation in the reference simulator.",
            "Oracle = explicit-state BFS over <= 2^8 states x 2^4 inputs; z3 4.8.12 decides satisfiability inside the reference solver.",
            "DESIGN.md §4 C02"),
    "C03": ("exploration",
            "runtime monitor: every Fail(witness) of bmc replayed in the reference simulator and in patronus' interpreter, under randomised solver models",
            "Each failing generated system is solved 8 times with different solver profiles, seeds, model diversification and value spellings; every witness is validated field by field against the transition-system semantics (init, constraints, bad at the last step, exact failed list, names, completeness) and replayed differentially in patronus::sim::Interpreter. Held on the witnesses executed. Systems without a reachable bad state get one bounded run as well: a witness reported there cannot be genuine and is validated too. A mode with 65-200 bit values (verdict Fail by construction) replays witnesses whose values the solver prints in binary or hex.",
            "Model variety comes from z3 seeds + explicit diversification in the reference solver.",
            "DESIGN.md §4 C03"),
    "C04": ("exploration",
            "offline checker over the recorded solver conversation (strict scope/sort checker) + evaluation of the recorded script under concrete reference executions",
            "UnrollSmtEncoding is driven through both entry points into the reference solver; the event log must contain no rejected command, and the recorded script, loaded into the R6 evaluator and bound to concrete executions of the reference simulator, must give every state/input/constraint/bad step symbol the value that signal has in that step. Held on the scripts and executions listed. The same two oracles run on the scripts of the shipped designs.",
            "12 (thorough: 60) random executions per script; strictness as in C05.",
            "DESIGN.md §4 C04"),
    "C10": ("exploration",
            "runtime monitor: pdr verdicts against explicit-state unbounded reachability under varied solver behaviours + frame-trace invariant hook (H3) checked on the explicit state space",
            "patronus::mc::pdr runs through the real text protocol against the reference solver under rotating behaviours (3 profiles x generalisation on/off x minimal/full/random unsat cores x random models, yices profile without cores); verdicts must equal the full reachability fixpoint, be definite, stay under 10^5 queries; Fail witnesses are validated; after every main-loop iteration and before Success the frame trace handed out by hook H3 is checked against invariants every correct IC3 satisfies (over-approximation per frame; on Success: initiation, closure under the constrained transition relation, safety). Held on the runs executed. PDR also runs on the shipped bit-vector designs under a deterministic effort bound: Fail witnesses are validated, Success must not contradict simulation or a validated bounded counterexample, and the invariant handed over through H3 is sampled (reachable states outside every blocked cube, no bad state inside, sampled steps closed).",
            "Bit-vector systems with <= 2^8 states; z3 decides satisfiability inside the reference solver; feasibility filter as described in DESIGN.md.",
            "DESIGN.md §4 C10"),
    "C15": ("fault_enumeration",
            "fault injection at every response-bearing point of recorded BMC / PDR / SolverContext conversations x 14 fault kinds, each run in a child process with a /proc-based hang observer",
            "For each job the fault-free conversation is measured, then every (position, fault kind) pair is replayed in a child process with the fault armed inside the reference solver; outcomes are classified: verdict despite fault, panic, crash, mangled or misattributed error message, hang (solver gone or cpu burning past 1000x the fault-free time). Exhaustive over positions x kinds for the jobs executed. Three more fault kinds hit commands that bear no response (error and carry on, error and die, die), incl. early in >24 kB runs of such commands on a shipped design with the solver pipe shrunk to one page; and every satisfiability query of BMC/PDR jobs is answered Unknown in turn through an implementation of the public SolverContext trait (a definite verdict must then be the fault-free one, BMC failure depth included, and PDR frame traces must stay sound). A client and a solver that both sit in read() past the budget count as a hang.",
            "Jobs are deterministic so that positions found in the fault-free run are hit again; 8 (thorough: 96) jobs.",
            "DESIGN.md §4 C15"),
    "C19": ("exploration",
            "runtime monitor: every shipped rule instantiated over all width/sign assignments up to a bound, lowered with from_arith and compared by exhaustive evaluation; to_arith/from_arith round trip compared by evaluation",
            "All width assignments in 1..=4/5 (1..=8/10 for left-shift-mult) x both signs of every rule are enumerated; where the rule's own eval_condition holds both sides are lowered with the real from_arith and evaluated on ALL operand values by the reference evaluator; above the bound widths up to 66 are sampled; the conversion round trip is compared by evaluation on generated expressions of the convertible fragment. Exhaustive within the stated scope, sampled above it.",
            "Rule patterns are read through ArithRewrite::patterns(); operand values exhaustive (<= 15 bits) in the enumerated part.",
            "DESIGN.md §4 C19"),
    "C20": ("exploration",
            "runtime invariant monitor through hook H1: partition and denotation of every summary after every operation, over all valuations of the guard terminals, against a denotational shadow",
            "Operation histories over value summaries (new, apply_bin_op, apply_ite, coalesce, import_into_guard, expr_to_guard) with guard terminals that are comparisons, array reads and ites as well as 1-bit symbols; after every operation exactly one entry guard must hold under each of the 2^t terminal valuations and its value must equal the harness-side denotation; expr_to_guard is compared with the specification and the reference evaluator. Exhaustive over valuations for the histories executed.",
            "Hook H1 exposes entries and guard evaluation read-only; at most 6 terminals per history.",
            "DESIGN.md §4 C20"),
}

NOT_YET = {}

ALL = ["C%02d" % i for i in range(1, 21)]


def main():
    head = subprocess.run(["git", "-C", "/repo", "log", "--format=%h %s"], capture_output=True, text=True).stdout.splitlines()
    hook_commits = [l.split()[0] for l in head if "verif hook" in l]
    checks = []
    for cid in ALL:
        if cid not in CHECKS:
            continue
        level, tech, text, note, ref = CHECKS[cid]
        checks.append({
            "property_id": cid,
            "quick_cmd": f"./check {cid} quick",
            "thorough_cmd": f"./check {cid} thorough",
            "evidence_file": f"/verif/evidence/{cid}.json",
            "replay_cmd_template": f"./check {cid} --replay {{path}}",
            "engine": "vharness",
            "level_claimed": {"category": level, "text": text, "design_ref": ref},
            "level_note": note,
            "technique": tech,
        })
    na = []
    for cid in ALL:
        if cid not in CHECKS:
            na.append({"property_id": cid, "reason": NOT_YET.get(cid, "monitor not built yet in this session (planned, see DESIGN.md §4); not a limitation of the technique")})
    m = {
        "version": 1,
        "setup_cmd": "./setup.sh",
        "hooks": {
            "guard": "--cfg patronus_verif",
            "enable": "RUSTFLAGS='--cfg patronus_verif' via /verif/harness/.cargo/config.toml; the harness depends on /repo/patronus* by path, so every ./check rebuilds /repo's working tree with the hooks compiled in",
            "baseline_off_cmd": "cd /repo && cargo test --workspace --no-fail-fast --offline",
            "source_commits": hook_commits,
            "add_only": True,
        },
        "engines": [{
            "name": "vharness",
            "path": "/verif/harness",
            "serves_properties": [c["property_id"] for c in checks],
            "kind_free_text": "Rust harness: workload generators, independent reference semantics (num-bigint), shard runner with journals/watchdogs, reference SMT solver + fault injector (refsolver)",
        }],
        "checks": checks,
        "not_applicable": na,
        "notes": "Technique family: runtime monitoring. Exit 0 held / 1 VIOLATION / 2 inconclusive. Known findings: /verif/known_findings.json.",
    }
    json.dump(m, open("/verif/MANIFEST.json", "w"), indent=1)
    print("wrote MANIFEST.json with", len(checks), "checks,", len(na), "not claimed")


if __name__ == "__main__":
    main()

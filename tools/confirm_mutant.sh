#!/bin/bash
# usage: tools/confirm_mutant.sh <worktree> <A|B> [crate-dir]
# Confirms an independently written seeded change in its own scratch worktree:
#   1. patch applies and compiles, pinned suite still 115 passing
#   2. demonstration fails with the patch
#   3. demonstration passes without it
wt=$1; x=$2; crate=${3:-patronus}
cd "$wt" || exit 2
git checkout -q -- . ; git clean -fdq -e OUT -e target >/dev/null 2>&1
name=$(echo "seeded_$(basename $wt)_$x" | tr 'A-Z' 'a-z')
git apply OUT/$x.patch || { echo "CONFIRM $wt $x: patch does not apply"; exit 1; }
out=$(cargo test --workspace --no-fail-fast --offline 2>&1)
ok=$(echo "$out" | grep -E "^test .* \.\.\. ok$" | wc -l); failed=$(echo "$out" | grep -E "^test .* \.\.\. FAILED$" | wc -l)
mkdir -p $crate/tests; cp OUT/${x}_demo.rs $crate/tests/$name.rs
with=$(cargo test -p $(basename $crate) --offline --test $name 2>&1 | grep -E "^test result" | tail -1)
git checkout -q -- .
without=$(cargo test -p $(basename $crate) --offline --test $name 2>&1 | grep -E "^test result" | tail -1)
rm -f $crate/tests/$name.rs
echo "CONFIRM $(basename $wt) $x: suite passed=$ok failed=$failed | demo with patch: $with | without: $without"

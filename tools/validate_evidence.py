#!/usr/bin/env python3
"""validates MANIFEST.json and every evidence file against the schemas in /root/.vp (run with python3-vt)"""
import json, sys, glob
import jsonschema
ok = True
m = json.load(open('/verif/MANIFEST.json'))
try:
    jsonschema.validate(m, json.load(open('/root/.vp/MANIFEST.schema.json')))
except jsonschema.ValidationError as e:
    ok = False; print('MANIFEST:', e.message)
es = json.load(open('/root/.vp/EVIDENCE.schema.json'))
for c in m['checks']:
    f = c['evidence_file']
    try:
        d = json.load(open(f))
        jsonschema.validate(d, es)
        cov = d['coverage']
        if cov.get('evaluations', 0) < 1 or cov.get('distinct_nontrivial', 0) < 2 or len(cov.get('samples', [])) < 1 or d['tier'] not in ('quick', 'thorough'):
            ok = False; print(f, 'thin:', d['tier'], cov.get('evaluations'), cov.get('distinct_nontrivial'), len(cov.get('samples', [])))
    except Exception as e:
        ok = False; print(f, 'INVALID:', str(e)[:300])
print('ok' if ok else 'PROBLEMS')
sys.exit(0 if ok else 1)

#!/usr/bin/env python3
"""Refreshes the commit hashes of `fixed` entries in known_findings.json from /repo's history (matched by commit subject)."""
import json, subprocess
log = subprocess.run(["git", "-C", "/repo", "log", "--format=%h\t%s"], capture_output=True, text=True).stdout.splitlines()
subjects = {l.split("\t", 1)[1]: l.split("\t", 1)[0] for l in log if "\t" in l}
p = "/verif/known_findings.json"
d = json.load(open(p))
SUBJ = {
    "C06:ugte": "fix: unsigned >= of equal operands wider than 64 bits evaluates to true",
    "C01:ugte": "fix: unsigned >= of equal operands wider than 64 bits evaluates to true",
    "C01:shift": "fix: shifts by a literal >= 2^32 are no longer simplified to the identity",
}
for f in d["findings"]:
    if f.get("status") != "fixed":
        continue
    subj = f.get("commit_subject")
    if not subj:
        continue
    h = subjects.get(subj)
    if h is None:
        print("WARNING: no commit with subject", subj)
        continue
    old = f.get("commit")
    f["commit"] = h
    if old and old in f.get("line", ""):
        f["line"] = f["line"].replace(old, h)
json.dump(d, open(p, "w"), indent=2)
print("synced")

#!/usr/bin/env python3
"""usage: keep_mutant.py <worktree> <A|B> <property> <confirm-line-file> <results-log>
Copies a confirmed seeded change into /verif/seeded/<property>-<X>/ with meta.json."""
import json, os, shutil, sys, re
wt, x, prop, confirm_log, results_log = sys.argv[1:6]
store_as = sys.argv[6] if len(sys.argv) > 6 else x
dst = f"/verif/seeded/{prop}-{store_as}"
os.makedirs(dst, exist_ok=True)
shutil.copy(f"{wt}/OUT/{x}.patch", f"{dst}/patch.diff")
shutil.copy(f"{wt}/OUT/{x}_demo.rs", f"{dst}/demo.rs")
notes = open(f"{wt}/OUT/{x}_notes.md").read()
shutil.copy(f"{wt}/OUT/{x}_notes.md", f"{dst}/author_notes.md")
confirm = [l.strip() for l in open(confirm_log) if l.startswith(f"CONFIRM {os.path.basename(wt)} {x}:")]
results = []
for l in open(results_log):
    m = re.match(r"MUTANT (\S+)/(\w)\.patch check=(\S+) rc=(\d+) time=\S+ sigs=\[(.*)\]", l.strip())
    if m and m.group(1) == os.path.basename(wt) and m.group(2) == x:
        results.append({"check": m.group(3), "exit_code": int(m.group(4)), "violation_signatures": [s for s in m.group(5).split(';') if s]})
# the latest result per check wins
latest = {}
for r in results:
    latest[r["check"]] = r
needs = ""
for line in notes.splitlines():
    if re.search(r"need|manifest|trigger", line, re.I):
        needs += line.strip() + " "
meta = {
    "property": prop,
    "variant": store_as,
    "base_commit": os.popen("git -C /repo rev-parse --short HEAD").read().strip(),
    "written_by": "independent sub-agent given only the property text and a scratch worktree",
    "needs_to_manifest": needs.strip()[:1200],
    "confirmed_by_me": confirm[-1] if confirm else "",
    "what_i_ran": [f"tools/confirm_mutant.sh {wt} {x}  (patch applies, pinned suite 115 passing, demo fails with / passes without)"] + [f"tools/try_mutant.sh patch.diff {c}  (git apply to /repo, ./check {c} quick, git checkout -- .)" for c in latest],
    "results": list(latest.values()),
    "all_runs_in_order": results,
    "caught_by": sorted(c for c, r in latest.items() if r["exit_code"] == 1),
}
json.dump(meta, open(f"{dst}/meta.json", "w"), indent=1)
print(dst, "caught by", meta["caught_by"])

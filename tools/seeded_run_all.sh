#!/bin/bash
# usage: tools/seeded_run_all.sh [log]
# Replays every kept seeded change against the check(s) recorded as catching it and reports any that
# is no longer caught (regression test for the monitors). /repo is restored after every change.
log=${1:-/verif/target/seeded_run_all.log}
mkdir -p "$(dirname "$log")"; : > "$log"
cd /verif
bad=0
for d in seeded/*/; do
  [ -f "$d/meta.json" ] || continue
  checks=$(python3 -c "import json,sys; print(' '.join(json.load(open('$d/meta.json'))['caught_by']))")
  out=$(tools/try_mutant.sh "/verif/$d/patch.diff" $checks 2>&1); echo "$out" >> "$log"
  if echo "$out" | grep -q "rc=1"; then echo "caught   $d ($checks)"; else echo "NOT CAUGHT $d: $out"; bad=1; fi
done
exit $bad

#!/bin/bash
# usage: tools/run_thorough.sh <seed> <ID>...   -- thorough tier of the given checks from a private copy of the
# current vcheck binary (so that rebuilding the harness meanwhile does not disturb the run); logs in target/thorough_logs
seed=$1; shift
mkdir -p /verif/target/snap /verif/target/thorough_logs
cp /verif/target/release/vcheck /verif/target/snap/vcheck.$$ || exit 2
cd /verif
for id in "$@"; do
  s=$(date +%s)
  VERIF_SEED=$seed /verif/target/snap/vcheck.$$ $id thorough > /verif/target/thorough_logs/$id.log 2>&1; rc=$?
  echo "$id thorough seed=$seed rc=$rc $(( $(date +%s) - s ))s $(grep -c '^KNOWN-FINDING' target/thorough_logs/$id.log) known $(grep -c '^VIOLATION' target/thorough_logs/$id.log) violations $(tail -1 target/thorough_logs/$id.log | cut -c1-200)"
done
rm -f /verif/target/snap/vcheck.$$

#!/bin/bash
# usage: tools/try_benign.sh <patch> <ID>...
# Applies a behaviour-preserving change to /repo, runs the quick tier of the given checks and reports every check that
# does not exit 0 (a false alarm, unless the change turns out not to be behaviour preserving); restores /repo.
exec "$(dirname "$0")/try_mutant.sh" "$@"

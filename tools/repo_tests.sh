#!/bin/bash
# runs the repository's pinned suite with the verification guard OFF; expects 115 passing tests
cd /repo || exit 2
out=$(cargo test --workspace --no-fail-fast --offline 2>&1)
if echo "$out" | grep -qE "^error(\[E[0-9]+\])?: (could not compile|aborting|mismatched|cannot|expected|unresolved|no method)"; then echo "$out" | grep -A12 "^error" | head -40; echo "BUILD FAILED"; exit 1; fi
ok=$(echo "$out" | grep -E "^test .* \.\.\. ok$" | wc -l)
failed=$(echo "$out" | grep -E "^test .* \.\.\. FAILED$" | wc -l)
echo "passed=$ok failed=$failed (baseline: 115 / 33)"
[ "$ok" = "115" ] && [ "$failed" = "33" ]

#!/bin/bash
# Builds the verification harness offline (and /repo as a path dependency, hooks enabled).
set -e
mkdir -p /verif/target /verif/evidence
cd /verif/harness
export CARGO_NET_OFFLINE=true
cargo build --release --offline 2>&1 | tail -3
echo "setup ok"

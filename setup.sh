#!/bin/bash
# Builds the verification harness offline (and /repo as a path dependency, hooks enabled),
# the repository's `mc` tool (used by C02) and installs the reference solver under the solver names.
set -e
mkdir -p /verif/target /verif/evidence
cd /verif/harness
export CARGO_NET_OFFLINE=true
cargo build --release --offline 2>&1 | tail -3
cargo build --release --offline -p mc --manifest-path /repo/Cargo.toml --target-dir /verif/target/repo-tools 2>&1 | tail -2
mkdir -p /verif/target/solverbin
for n in bitwuzla yices-smt2 z3 cvc5; do ln -sf /verif/target/release/refsolver /verif/target/solverbin/$n; done
if [ "${1:-}" = "--selftest" ]; then
  # oracle self-check: reference bit-vector semantics vs z3 on random ground terms
  /verif/target/release/probe selftest 3000
fi
echo "setup ok"
